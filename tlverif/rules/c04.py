"""C04 — scalar values survive their text and numeric wire forms (structural necessary conditions)."""

from __future__ import annotations

import ast

from .. import oracle
from .. import paths as P
from .. import terms as T
from ..model import AnalysisError, Program
from ..report import Report
from . import common as C

EXPLANATION = (
    "R04.1 whole-package sweep of datetime.fromtimestamp / .now() call sites: the zone argument is present and (for epoch readings) resolves to UTC; "
    "the date->datetime lift in unixtime passes tzinfo=UTC. R04.2 the ISO-8601 duration writer is extracted from serdes.isoformat's f-string "
    "generators: (component, designator) pairs against the ISO table and order, 6-digit fraction, coverage of pendulum's weeks/remaining_days "
    "decomposition, inputs of pendulum.duration, and the regular language of emitted strings. R04.3/R04.4 numeric input reaches timedelta only as "
    "seconds= and without lossy narrowing. R04.5 temporal inputs to str/bytes/number types go through isoformat/unixtime under a guard whose class set "
    "equals those functions' parameter annotation."
)
ASSUMPTIONS = [
    "exact parse-back of str(v) / isoformat() by Python's and pendulum's parsers is not decided (ND)",
    "offsets of time-only strings and negative-component durations are value-level (ND)",
    "pendulum.Duration exposes years, months, weeks, days (total), remaining_days, hours, minutes, remaining_seconds, microseconds",
]
TRUSTED = oracle.TRUSTED + ["ISO-8601 duration designator table: Y M W D | T | H M S in that order"]

DATE_DESIG = {"years": "Y", "months": "M", "weeks": "W", "days": "D", "remaining_days": "D"}
TIME_DESIG = {"hours": "H", "minutes": "M", "seconds": "S", "remaining_seconds": "S"}
ORDER = "YMWD", "HMS"


def _is_utc(term) -> bool:
    return term is not None and T.refname(term) in oracle.UTC_NAMES


def r04_1(prog: Program, rep: Report):
    seen = set()
    for q, f in sorted(prog.functions.items()):
        try:
            ps = P.paths_of(prog, f)
        except AnalysisError:
            continue
        idx = 0
        local_seen = set()
        for p in ps:
            for c in p.calls():
                n = T.refname(c[1])
                kw = dict((k, v) for k, v in c[3] if k)
                if n == "datetime.datetime.fromtimestamp":
                    key = T.show(c)[:100]
                    if key in local_seen:
                        continue
                    local_seen.add(key)
                    idx += 1
                    tz = kw.get("tz") or (c[2][1] if len(c[2]) > 1 else None)
                    rep.check(
                        _is_utc(tz), "R04.1", q, f.loc, "epoch seconds are read in UTC: " + key,
                        f"datetime.fromtimestamp without UTC (tz={T.show(tz) if tz else 'absent'}): epoch seconds would be read in the host's local zone",
                        detail=f"fromtimestamp#{idx}",
                    )  # fmt: skip
                elif c[1][0] == "attr" and c[1][2] == "now" or n == "datetime.datetime.now":
                    base = c[1][1] if c[1][0] == "attr" else None
                    if base is not None and base not in (C.sattr("t"), C.sattr("origin")) and T.refname(base) != "datetime.datetime":
                        continue
                    key = T.show(c)[:100]
                    if key in local_seen:
                        continue
                    local_seen.add(key)
                    idx += 1
                    tz = kw.get("tz") or (c[2][0] if c[2] else None)
                    rep.check(tz is not None and tz != ("const", None), "R04.1", q, f.loc, "now() is zone-aware: " + key, "now() called without a zone: a naive local time is produced", detail=f"now#{idx}")
        seen |= local_seen
    # date -> datetime lift in unixtime
    f = prog.function(f"{C.SERDES}.unixtime")
    lift = None
    for p in P.paths_of(prog, f):
        for c in p.calls():
            if T.refname(c[1]) == "datetime.datetime" and dict(c[3]).get("year") is not None:
                lift = c
    if lift is None:
        rep.undecided("R04.1", f.qualname, f.loc, "date -> datetime lift not found in unixtime", detail="date-lift")
    else:
        rep.check(_is_utc(dict(lift[3]).get("tzinfo")), "R04.1", f.qualname, f.loc, "a date is lifted to midnight UTC before .timestamp()", "date lifted to a naive/local datetime: the timestamp depends on the host zone", detail="date-lift")


def _join_parts(term):
    """'' .join(<gen f'{p}{s}' for p, s in (pairs) if p>) -> list of (component term, designator) or None."""
    if not (term[0] == "call" and term[1][0] == "attr" and term[1][2] == "join" and term[1][1] == ("const", "") and len(term[2]) == 1):
        return None
    g = term[2][0]
    if g[0] != "comp" or len(g[3]) != 1:
        return None
    it = g[3][0][0]
    if it[0] not in ("tuple", "list"):
        return None
    pairs = []
    for e in it[1]:
        if e[0] != "tuple" or len(e[1]) != 2 or e[1][1][0] != "const":
            return None
        pairs.append((e[1][0], e[1][1][1]))
    src = ("elem", it)
    p_t, s_t = ("unpack", src, 0, 2), ("unpack", src, 1, 2)
    elt = g[2]
    ok_elt = elt[0] == "fstr" and len(elt[1]) == 2 and elt[1][0][0] == "fmt" and elt[1][0][1] == p_t and elt[1][1][0] == "fmt" and elt[1][1][1] == s_t
    cond_ok = g[4] == (p_t,)
    return pairs, ok_elt, cond_ok


def _component(term, dur):
    """Classify a component expression: returns dict(kind=..., reads=set(attrs))."""
    reads = {s[2] for s in T.walk(term) if s[0] == "attr" and s[1] == dur}
    return reads


# ---- integer-arithmetic duration writer (total microseconds, divmod chain) ------------------------------------------
US_PER = {"D": 86_400 * 1_000_000, "H": 3_600 * 1_000_000, "M": 60 * 1_000_000, "S": 1_000_000}


def _lin(term, dt):
    """Linear form {symbol: coefficient, 1: constant} of an integer expression over the timedelta's fields, or None."""
    op = term[0]
    if op == "const" and isinstance(term[1], int) and not isinstance(term[1], bool):
        return {1: term[1]}
    if op == "attr" and term[1] == dt and term[2] in ("days", "seconds", "microseconds"):
        return {term[2]: 1}
    if T.is_call_to(term, "builtins.getattr") and len(term[2]) == 3 and term[2][0] == dt and term[2][1][0] == "const" and term[2][2] == ("const", 0):
        return {term[2][1][1]: 1}
    if op == "binop" and term[1] in ("+", "-", "-=", "+="):
        a, b = _lin(term[2], dt), _lin(term[3], dt)
        if a is None or b is None:
            return None
        sgn = 1 if term[1] in ("+", "+=") else -1
        out = dict(a)
        for k, v in b.items():
            out[k] = out.get(k, 0) + sgn * v
        return {k: v for k, v in out.items() if v != 0}
    if op == "binop" and term[1] == "*":
        a, b = _lin(term[2], dt), _lin(term[3], dt)
        if a is None or b is None:
            return None
        for x, y in ((a, b), (b, a)):
            if set(x) <= {1}:
                c = x.get(1, 0)
                return {k: v * c for k, v in y.items() if v * c != 0}
        return None
    return None


def _qty(term, dt):
    if T.is_call_to(term, "builtins.abs") and len(term[2]) == 1:
        inner = _qty(term[2][0], dt)
        return None if inner is None else ("abs", inner)
    if term[0] == "unpack" and term[3] == 2 and T.is_call_to(term[1], "builtins.divmod") and len(term[1][2]) == 2:
        a = _qty(term[1][2][0], dt)
        c = _lin(term[1][2][1], dt)
        if a is None or c is None or set(c) != {1}:
            return None
        return ("div" if term[2] == 0 else "mod", a, c[1])
    if term[0] == "binop" and term[1] in ("//", "%"):
        a = _qty(term[2], dt)
        c = _lin(term[3], dt)
        if a is None or c is None or set(c) != {1}:
            return None
        return ("div" if term[1] == "//" else "mod", a, c[1])
    lf = _lin(term, dt)
    return None if lf is None else ("lin", tuple(sorted((str(k), v) for k, v in lf.items())))


def _duration_writer_int(prog, rep, rule, only_coverage, f, iso, r, date_pairs, time_pairs, ok_shape):
    q = iso.qualname
    dt = ("param", f.params[0])
    day = US_PER["D"]
    base = {"days": day, "seconds": 1_000_000, "microseconds": 1}
    cal = {"years": -365 * day, "months": -30 * day}

    def total_ok(qt):
        """abs(total) where total = (days*86400 + seconds)*10**6 + microseconds [- calendar units counted in days]."""
        if qt is None or qt[0] != "abs" or qt[1][0] != "lin":
            return False
        lf = dict(qt[1][1])
        core = {k: lf.get(k) for k in base}
        extra = {k: v for k, v in lf.items() if k not in base}
        return core == base and all(k in cal and v == cal[k] for k, v in extra.items())

    comps = {des: _qty(c, dt) for c, des in date_pairs if des == "D"}
    tcomps = {}
    sec_term = None
    for c, des in time_pairs:
        if des == "S":
            sec_term = c
        else:
            tcomps[des] = _qty(c, dt)
    d = comps.get("D")
    cov = d is not None and d[0] == "div" and d[2] == day and total_ok(d[1])
    rep.check(cov, rule, q, f.loc, "the day count is the whole-day quotient of the exact microsecond total (days*86400e6 + seconds*1e6 + microseconds)", "the day component is not the quotient of the full microsecond total by one day: part of the value is dropped or mis-scaled", detail="coverage")
    if only_coverage:
        return
    rep.check(ok_shape, "R04.2", q, f.loc, "each part is rendered as <component><designator> and omitted when zero", detail="part-shape")
    # the divmod chain: every remainder feeds the next smaller unit
    mag = d[1] if cov else None
    r1 = ("mod", mag, day)
    want = {"H": ("div", r1, US_PER["H"]), "M": ("div", ("mod", r1, US_PER["H"]), US_PER["M"])}
    r3 = ("mod", ("mod", r1, US_PER["H"]), US_PER["M"])
    for des in ("H", "M"):
        got = tcomps.get(des)
        rep.check(cov and got == want[des], "R04.2", q, f.loc, f"time component {des!r} is the quotient of the previous remainder by its unit", f"time component {des!r} is not remainder // {US_PER[des]} of the chain (unit arithmetic of the duration writer is off)", detail=f"time-{des}-chain")
    # seconds with the fraction
    s_whole, s_frac = ("div", r3, US_PER["S"]), ("mod", r3, US_PER["S"])
    ok_s = frac_ok = False
    if sec_term is not None and cov:
        if sec_term[0] == "ifexp" and _qty(sec_term[1], dt) == s_frac and _qty(sec_term[3], dt) == s_whole and sec_term[2][0] == "fstr":
            parts = sec_term[2][1]
            if len(parts) == 3 and parts[0][0] == "fmt" and _qty(parts[0][1], dt) == s_whole and parts[1] == ("const", ".") and parts[2][0] == "fmt" and _qty(parts[2][1], dt) == s_frac:
                ok_s = True
                spec = parts[2][3]
                frac_ok = spec is not None and spec[0] == "fstr" and len(spec[1]) == 1 and spec[1][0][0] == "const" and spec[1][0][1] in ("06", "06d", "0>6", "0>6d")
        elif _qty(sec_term, dt) == s_whole:
            ok_s = True  # no fraction written at all: judged below
    rep.check(ok_s, "R04.2", q, f.loc, "the seconds component is <whole seconds>[.<microseconds>] of the last remainder", "the seconds component is not built from the last remainder's quotient and remainder by 10**6", detail="time-S-chain")
    rep.check(frac_ok, "R04.2", q, f.loc, "fractional seconds are zero-padded to 6 digits", "microseconds are not rendered as a zero-padded 6-digit fraction after the whole seconds (1 µs would read as 0.1 s)", detail="fraction")
    # designators and order
    for label, pairs, order in (("date", date_pairs, ORDER[0]), ("time", time_pairs, ORDER[1])):
        last = -1
        for comp, des in pairs:
            pos = order.find(des)
            rep.check(pos > last, "R04.2", q, f.loc, f"designator {des!r} in ISO order within the {label} part", f"designator {des!r} out of ISO order in the {label} part", detail=f"{label}-order-{des}")
            last = max(last, pos)
    for c, des in date_pairs:
        if des in ("Y", "M"):
            want_sym = "years" if des == "Y" else "months"
            rep.check(_qty(c, dt) == ("abs", ("lin", ((want_sym, 1),))), "R04.2", q, f.loc, f"date component {want_sym} carries designator {des!r}", f"designator {des!r} of the date part is not the magnitude of {want_sym}", detail=f"date-{des}-{want_sym}")
    # one sign for the whole duration, decided on the same total the magnitude is taken of
    parts = r[1]
    sign = parts[0] if parts and parts[0][0] == "fmt" else None
    sign_ok = False
    if sign is not None and sign[1][0] == "ifexp" and sign[1][2] == ("const", "-") and sign[1][3] == ("const", ""):
        test = sign[1][1]
        # (`total < 0` alone must decide: the test is that comparison, or a disjunction with it as a direct operand)
        for x in ([test] if test[0] != "boolop" else (list(test[2]) if test[1] == "or" else [])):
            if x[0] == "cmp" and x[1] == "<" and x[3] == ("const", 0):
                lf = _lin(x[2], dt)
                if lf is not None and total_ok(("abs", ("lin", tuple(sorted((str(k), v) for k, v in lf.items()))))):
                    sign_ok = True
    rep.check(sign_ok and cov, "R04.2", q, f.loc, "a negative duration is written as one leading '-' and the magnitude of the total", "the writer does not take the sign out of the total: a negative timedelta is rendered with a sign on every component ('PT-1S', 'PT0.-00001S'), which no ISO-8601 reader accepts", detail="sign")
    consts = [x[1] for x in parts if x[0] == "const"]
    if consts == ["P", "T"]:
        rep.violated("R04.2", q, f.loc, "the time designator 'T' is written even when no time component follows: a zero duration renders 'PT' and whole days 'P1DT'", detail="T-unconditional")


def _diff_pairs(a, b, out):
    """The deepest places where two terms differ, as (left, right) pairs; False when they differ outside a term."""
    if a == b:
        return True
    is_term = lambda x: isinstance(x, tuple) and bool(x) and isinstance(x[0], str)
    if not (isinstance(a, tuple) and isinstance(b, tuple)):
        return False
    if is_term(a) != is_term(b):
        return False
    if len(a) == len(b) and (not is_term(a) or (a[0] == b[0] and a[0] not in ("const", "param", "ref"))):
        sub = set()
        if all(_diff_pairs(x, y, sub) for x, y in zip(a, b)):
            out |= sub
            return True
    if is_term(a):
        out.add((a, b))
        return True
    return False


def _diff_merge(a, b, g):
    """The one term that is `a` where guard `g` held and `b` where it did not, when the two differ by one sub-term
    (however often it occurs)."""
    pairs = set()
    if not _diff_pairs(a, b, pairs) or len(pairs) != 1:
        return None
    (x, y), = pairs
    is_text = lambda u: u[0] == "fstr" or (u[0] == "const" and isinstance(u[1], str))
    if not (is_text(x) or is_text(y)):
        return None  # only a text field chosen by the branch is folded; arithmetic stays on its own path
    hole = ("ifexp", g, x, y)

    def build(u, v):
        if u == v:
            return u
        if (u, v) == (x, y):
            return hole
        return tuple(build(m, n) for m, n in zip(u, v))

    return build(a, b)


def _merge_branch_returns(rets):
    """A value chosen by an if statement before the return is the conditional expression of its two values: pairs of
    return paths whose guards differ in exactly one decision, and whose values differ in one place, are folded."""
    items = [(tuple(p.guards()), p, r) for p, r in rets]
    # the branch of `a or b` not taken is recorded as (a, False), (b, False); of `a and b` taken as (a, True), (b, True):
    # put the disjunction / conjunction back so that both branches of one decision have guard lists of one length
    whole = {}
    for gs, _, _ in items:
        for g, v in gs:
            if g[0] == "boolop" and ((g[1] == "or" and v is True) or (g[1] == "and" and v is False)):
                whole[(g, v)] = tuple((op, not v) for op in g[2])
    if whole:
        norm = []
        for gs, p, r in items:
            for (g, v), run in whole.items():
                n = len(run)
                for k in range(len(gs) - n + 1):
                    if gs[k:k + n] == run:
                        gs = gs[:k] + ((g, not v),) + gs[k + n:]
                        break
            norm.append((gs, p, r))
        items = norm
    changed = True
    while changed:
        changed = False
        for i in range(len(items)):
            for j in range(len(items)):
                if i == j:
                    continue
                gi, pi, ri = items[i]
                gj, pj, rj = items[j]
                if len(gi) != len(gj):
                    continue
                d = [k for k in range(len(gi)) if gi[k] != gj[k]]
                if len(d) != 1:
                    continue
                k = d[0]
                if gi[k][0] != gj[k][0] or gi[k][1] is not True or gj[k][1] is not False:
                    continue
                m = _diff_merge(ri, rj, gi[k][0])
                if m is None or m[0] == "ifexp" and m[1] == gi[k][0] and ri[0] != "ifexp":
                    continue  # the whole value differs: nothing local to fold
                items = [x for n, x in enumerate(items) if n not in (i, j)] + [(gi[:k] + gi[k + 1:], pi, m)]
                changed = True
                break
            if changed:
                break
    return [(p, r) for _, p, r in items]


def duration_writer(prog: Program, rep: Report, rule="R04.2", only_coverage=False):
    # the duration writer is whichever serdes function returns the f-string that opens with the 'P' designator
    f = None
    target = None
    for cand_q, cand in sorted(prog.functions.items()):
        if not cand_q.startswith(C.SERDES + "."):
            continue
        try:
            cps = P.paths_of(prog, cand)
        except AnalysisError:
            continue
        for p, r in _merge_branch_returns(P.returns(cps)):
            if r[0] == "fstr" and r[1] and (r[1][0] == ("const", "P") or (len(r[1]) > 1 and r[1][0][0] == "fmt" and r[1][1][0] == "const" and str(r[1][1][1]).startswith("P"))):
                f, target = cand, (p, r)
    if target is None:
        iso = prog.function(f"{C.SERDES}.isoformat")
        rep.undecided(rule, iso.qualname, iso.loc, "duration f-string not found in serdes")
        return
    # it must be what isoformat() uses for timedeltas
    iso = prog.function(f"{C.SERDES}.isoformat")
    if f is not iso:
        reach = any(T.is_call_to(r, f.qualname) and r[2] == (("param", iso.params[0]),) for _, r in P.returns(P.paths_of(prog, iso)))
        if not reach:
            rep.violated(rule, iso.qualname, iso.loc, f"isoformat() does not return {f.name}(dt) for durations", detail="delegation")
    q = iso.qualname
    p, r = target
    parts = r[1]
    joins = [(i, _join_parts(x[1])) for i, x in enumerate(parts) if x[0] == "fmt" and _join_parts(x[1]) is not None]
    consts = [(i, x[1]) for i, x in enumerate(parts) if x[0] == "const"]
    if len(joins) == 2 and [c[1] for c in consts] == ["P", "T"]:
        allc = [c for c, _ in joins[0][1][0] + joins[1][1][0]]
        if not any(T.contains(c, lambda x: x[0] == "attr" and x[2] in ("remaining_days", "remaining_seconds", "weeks", "hours", "minutes")) for c in allc):
            # components are computed by integer arithmetic on the timedelta's own fields
            (dp, ok1, c1), (tp, ok2, c2) = joins[0][1], joins[1][1]
            _duration_writer_int(prog, rep, rule, only_coverage, f, iso, r, dp, tp, ok1 and ok2 and c1 and c2)
            return
    if len(joins) != 2 or any(j[1] is None for j in joins) or [c[1] for c in consts] != ["P", "T"]:
        rep.undecided(rule, q, f.loc, "duration writer shape outside the idiom set: " + T.show(r)[:200])
        return
    (date_pairs, ok1, c1), (time_pairs, ok2, c2) = joins[0][1], joins[1][1]
    # the duration object: the term all components read from
    cands = set()
    for comp, _ in date_pairs + time_pairs:
        for s in T.walk(comp):
            if s[0] == "attr" and s[2] in set(DATE_DESIG) | set(TIME_DESIG) | {"microseconds"}:
                cands.add(s[1])
    # keep the outermost objects only (the duration's own construction reads the timedelta's fields)
    durs = {c for c in cands if not any(c is not o and c != o and T.contains(o, lambda s, c=c: s == c) for o in cands)}
    if len(durs) != 1:
        rep.undecided(rule, q, f.loc, f"components read from {len(durs)} different objects")
        return
    dur = durs.pop()
    # coverage of the weeks / remaining_days decomposition
    date_reads = {}
    for comp, des in date_pairs:
        date_reads[des] = (comp, _component(comp, dur))
    dcomp = date_reads.get("D")
    wcomp = date_reads.get("W")
    cov_ok = True
    why = ""
    if dcomp is None:
        cov_ok, why = False, "no day component is written"
    else:
        term, reads = dcomp
        if "days" in reads:
            pass
        elif "remaining_days" in reads:
            if "weeks" in reads:
                # unit arithmetic: weeks must be scaled by 7
                scaled = any(
                    s[0] == "binop" and s[1] == "*" and (("attr", dur, "weeks") in (s[2], s[3])) and (("const", 7) in (s[2], s[3]))
                    for s in T.walk(term)
                )
                if not scaled:
                    cov_ok, why = False, "weeks are added to the day count without the factor 7"
            elif wcomp is not None and "weeks" in wcomp[1]:
                pass
            else:
                cov_ok, why = False, "the day count reads remaining_days (days modulo 7) and the weeks are written nowhere: timedelta(days=8) renders as P1D"
        else:
            cov_ok, why = False, f"day component reads {sorted(reads)}"
    rep.check(cov_ok, rule, q, f.loc, "duration writer covers pendulum's weeks/remaining_days decomposition", "duration writer drops part of the value: " + why, detail="coverage")
    if only_coverage:
        return
    # pendulum's components carry the sign individually: unless the writer takes the sign out first, every component of a
    # negative duration is signed
    sign_handled = any(T.contains(tm, lambda x: T.is_call_to(x, "builtins.abs") or (x[0] == "cmp" and x[1] in ("<", ">", "<=", ">=") and (x[3] == ("const", 0) or T.is_call_to(x[3], "datetime.timedelta")))) for pth in P.paths_of(prog, f) for tm in pth.all_terms())
    rep.check(sign_handled, "R04.2", q, f.loc, "the sign is taken out of the duration before its components are written", "the writer formats pendulum's components as they are, and each of them is signed for a negative duration: timedelta(seconds=-1) renders 'PT-1S', timedelta(microseconds=-1) 'PT0.-00001S' — no ISO-8601 reader (the library's own included) accepts that", detail="sign")
    rep.check(ok1 and ok2 and c1 and c2, "R04.2", q, f.loc, "each part is rendered as <component><designator> and omitted when zero", detail="part-shape")
    # designators and order
    for label, pairs, table, order in (("date", date_pairs, DATE_DESIG, ORDER[0]), ("time", time_pairs, TIME_DESIG, ORDER[1])):
        last = -1
        for comp, des in pairs:
            reads = _component(comp, dur) - {"microseconds"}
            good = bool(reads) and all(table.get(a) == des or (a == "weeks" and des == "D") for a in reads)
            rep.check(good, "R04.2", q, f.loc, f"{label} component {sorted(reads)} carries designator {des!r}", f"{label} component {sorted(reads)} written with designator {des!r} (ISO table: { {a: table.get(a) for a in reads} })", detail=f"{label}-{des}-{'+'.join(sorted(reads))}")
            pos = order.find(des)
            rep.check(pos > last, "R04.2", q, f.loc, f"designator {des!r} in ISO order within the {label} part", f"designator {des!r} out of ISO order in the {label} part", detail=f"{label}-order-{des}")
            last = max(last, pos)
    # fraction: zero padded to six digits
    sec = [comp for comp, des in time_pairs if des == "S"]
    frac_ok = False
    if sec:
        for s in T.walk(sec[0]):
            if s[0] == "fmt" and s[1] == ("attr", dur, "microseconds"):
                spec = s[3]
                if spec is not None and spec[0] == "fstr" and len(spec[1]) == 1 and spec[1][0] == ("const", "06"):
                    frac_ok = True
                elif spec is not None and spec[0] == "fstr" and len(spec[1]) == 1 and spec[1][0][0] == "const" and spec[1][0][1] in ("06d", "0>6", "0>6d"):
                    frac_ok = True
        # the formatted seconds text may lose trailing zeros, nothing else
        for s in T.walk(sec[0]):
            if s[0] == "call" and s[1][0] == "attr" and s[1][2] in ("strip", "lstrip", "replace", "removeprefix", "zfill", "ljust", "format") and T.contains(s[1][1], lambda y: y == ("attr", dur, "microseconds")):
                frac_ok = False
            if s[0] == "binop" and s[1] in ("+", "/", "*") and T.contains(s, lambda y: y == ("attr", dur, "microseconds")) and not T.contains(s, lambda y: y[0] == "fstr"):
                frac_ok = False  # float arithmetic instead of digits: 1e-06
        uses_micro = any(s == ("attr", dur, "microseconds") for s in T.walk(sec[0]))
        rep.check(frac_ok or not uses_micro, "R04.2", q, f.loc, "fractional seconds are zero-padded to 6 digits", "microseconds are not rendered as a zero-padded 6-digit fraction after the whole seconds (1 µs would read as 0.1 s, 'PT.5S' or 'PT1e-06S' are not ISO-8601)", detail="fraction")
        rep.check(uses_micro, "R04.2", q, f.loc, "microseconds are written", "microseconds are never written", detail="micro-written")
    # inputs of pendulum.duration
    for pth in P.paths_of(prog, f):
        for c in pth.calls():
            if T.refname(c[1]) == "pendulum.duration":
                kw = dict(c[3])
                good = set(kw) == {"days", "seconds", "microseconds"} and all(v == ("attr", ("param", f.params[0]), k) for k, v in kw.items()) and not c[2]
                rep.check(good, "R04.2", q, f.loc, "pendulum.duration receives the timedelta's own days/seconds/microseconds under their names", "pendulum.duration is not fed all three normalised timedelta fields under their own names: " + T.show(c)[:140], detail="duration-inputs")
                break
    # language: 'T' is emitted unconditionally => 'PT', 'P1DT' are outside ISO-8601
    t_uncond = True  # consts == ['P', 'T'] established above
    if t_uncond:
        rep.violated("R04.2", q, f.loc, "the time designator 'T' is written even when no time component follows: a zero duration renders 'PT' and whole days 'P1DT'", detail="T-unconditional")


def r04_3_4(prog: Program, rep: Report, pe, urows):
    k, r = C.route(prog, pe, urows, C.TypeArg("datetime.timedelta"))
    sites = []
    if k == "row" and r.routine:
        f = C.call_of(prog, r.routine)
        for p, ret in P.returns(P.paths_of(prog, f)):
            numeric = any(pol and T.is_call_to(g, "builtins.isinstance") and g[2][0] == ("param", "val") and _numeric_classes(g[2][1]) for g, pol in p.guards())
            if numeric and ret[0] == "call" and ret[1] in (C.sattr("t"), C.sattr("origin")):
                sites.append((f, ret, ("param", "val")))
    f2 = prog.functions.get(f"{C.SERDES}._normalize_number")
    if f2:
        for p in P.paths_of(prog, f2):
            for c in p.calls():
                if T.refname(c[1]) == "datetime.timedelta":
                    sites.append((f2, c, ("param", "numval")))
    seen = set()
    for f, c, src in sites:
        key = (f.qualname, T.show(c))
        if key in seen:
            continue
        seen.add(key)
        kw = dict(c[3])
        rep.check(not c[2] and set(kw) == {"seconds"}, "R04.3", f.qualname, f.loc, "number -> timedelta only through seconds=", "a number reaches timedelta other than as seconds=: " + T.show(c)[:120])
        v = kw.get("seconds")
        if v is not None:
            lossy = [s for s in T.walk(v) if T.is_call_to(s, "builtins.int", "builtins.round", "math.floor", "math.trunc", "math.ceil") or (s[0] == "binop" and s[1] in ("//", "%"))]
            rep.check(v == src and not lossy, "R04.4", f.qualname, f.loc, "the number is passed unchanged (no narrowing)", f"the number is narrowed or altered before reaching the duration: seconds={T.show(v)[:80]} (1.5 would become 1 s)")
    if not sites:
        rep.violated("R04.3", "typelib.unmarshals.routines", urows[0].loc, "no number -> timedelta site found on the numeric path")
    # "numbers" are int *and* float epoch seconds: the numeric test of every temporal routine names both
    for cls in ("datetime.date", "datetime.datetime", "datetime.time", "datetime.timedelta"):
        k2, r2 = C.route(prog, pe, urows, C.TypeArg(cls))
        if k2 != "row" or r2.routine is None:
            continue
        f3 = C.call_of(prog, r2.routine)
        tests = []
        for p in P.paths_of(prog, f3):
            for g, _pol in p.guards():
                for y in T.walk(g):
                    if T.is_call_to(y, "builtins.isinstance") and len(y[2]) == 2 and _numeric_classes(y[2][1]):
                        names = {T.refname(x) for x in (y[2][1][1] if y[2][1][0] == "tuple" else (y[2][1],))}
                        tests.append(names)
        if tests:
            both = all({"builtins.int", "builtins.float"} <= n or n & {"numbers.Real", "numbers.Number"} for n in tests)
            rep.check(both, "R04.3", r2.routine.qualname, f3.loc, "the numeric test covers int and float epoch seconds", f"the numeric test of the {cls.rsplit('.', 1)[-1]} routine names {sorted(set().union(*tests))} only: the other kind of number is not read as seconds since the epoch (it is handed to the text parser and rejected)", detail="numeric-both")


def _numeric_classes(term) -> bool:
    names = {T.refname(x) for x in (term[1] if term[0] == "tuple" else (term,))}
    return bool(names & {"builtins.int", "builtins.float"})


def _annotation_classes(prog, f, pname) -> set[str] | None:
    for a in f.node.args.args + f.node.args.kwonlyargs + f.node.args.posonlyargs:
        if a.arg == pname and a.annotation is not None:
            out = set()

            def walk(n):
                if isinstance(n, ast.BinOp) and isinstance(n.op, ast.BitOr):
                    walk(n.left)
                    walk(n.right)
                elif isinstance(n, ast.Subscript) and ast.unparse(n.value).endswith("Union"):
                    for e in n.slice.elts if isinstance(n.slice, ast.Tuple) else [n.slice]:
                        walk(e)
                else:
                    out.add(prog.resolve_expr_name(f.module, n) or ast.unparse(n))

            walk(a.annotation)
            return out
    return None


def r04_5(prog: Program, rep: Report, pe, urows):
    iso = prog.function(f"{C.SERDES}.isoformat")
    unix = prog.function(f"{C.SERDES}.unixtime")
    want = (_annotation_classes(prog, iso, iso.params[0]) or set()) | (_annotation_classes(prog, unix, unix.params[0]) or set())
    targets = {}
    for cls, conv in (("builtins.str", iso), ("builtins.bytes", iso), ("builtins.int", unix), ("builtins.float", unix), ("decimal.Decimal", unix)):
        k, r = C.route(prog, pe, urows, C.TypeArg(cls))
        if k == "row" and r.routine:
            targets.setdefault(r.routine.qualname, (r.routine, conv, cls))
    for qual, (rc, conv, cls) in targets.items():
        f = C.call_of(prog, rc)
        ok_guard = False
        ok_flow = True
        found = False
        for p, ret in P.returns(P.paths_of(prog, f)):
            tg = [g for g, pol in p.guards() if pol and T.is_call_to(g, "builtins.isinstance") and g[2][0] == ("param", "val") and g[2][1][0] == "tuple" and any(T.refname(x) == "datetime.date" for x in g[2][1][1])]
            if not tg:
                continue
            found = True
            classes = {T.refname(x) for x in tg[0][2][1][1]}
            if classes == want:
                ok_guard = True
            conv_call = ("call", ("ref", conv.qualname), (("param", "val"),), ())
            if not T.contains(ret, lambda s: s == conv_call):
                ok_flow = False
        if not found:
            rep.violated("R04.5", qual, f.loc, f"no path handles temporal inputs for {cls} targets (date/time/timedelta would be str()-ed or cast raw)", detail="temporal-path")
            continue
        rep.check(ok_guard, "R04.5", qual, f.loc, f"temporal guard tests exactly {sorted(want)}", f"temporal guard class set differs from what {conv.name} accepts ({sorted(want)})", detail="guard-classes")
        rep.check(ok_flow, "R04.5", qual, f.loc, f"on the temporal path the result derives from serdes.{conv.name}(val)", f"on the temporal path the result does not derive from serdes.{conv.name}(val)", detail="flow")


TEXT_FAMILIES = {
    "builtins.int": "numerals beyond 64 bits come back from the JSON decoder as floats",
    "builtins.float": "the JSON/literal loader rounds or rejects what float() itself parses",
    "decimal.Decimal": "the loader turns '1.10' into the float 1.1 before Decimal sees it",
    "fractions.Fraction": "the loader cannot read '3/4'",
    "pathlib.PurePosixPath": "a path such as '123' or '[1]' reads as a number / list",
    "enum.Enum": "a str-valued member such as '1' reads as the int 1",
    "enum.StrEnum": "a str-valued member such as '1' reads as the int 1",
}
VAL = ("param", "val")
DECODE = ("call", ("ref", f"{C.SERDES}.decode"), (VAL,), ())
LOAD = ("call", ("ref", f"{C.SERDES}.load"), (VAL,), ())


def _ctor_sinks(term):
    out = []
    for s in T.walk(term):
        if s[0] == "call" and s[1] in (C.sattr("t"), C.sattr("origin"), C.sattr("caster")) and s[2]:
            a = s[2][0][1] if s[2][0][0] == "star" else s[2][0]
            if T.contains(a, lambda x: x == LOAD or T.is_call_to(x, f"{C.SERDES}.strload")):
                out.append("parsed")
            elif T.contains(a, lambda x: x == DECODE):
                out.append("text")
            elif T.contains(a, lambda x: x == VAL):
                out.append("raw")
    return out


def r04_6(prog: Program, rep: Report, pe, urows):
    """The canonical text of a scalar reaches its constructor / by-value lookup as text, before (or instead of) the
    lossy JSON/literal loader."""
    done = set()
    for cls, why in TEXT_FAMILIES.items():
        k, r = C.route(prog, pe, urows, C.TypeArg(cls))
        if k != "row" or r.routine is None or r.routine.qualname in done:
            continue
        done.add(r.routine.qualname)
        f = C.call_of(prog, r.routine)
        ps = P.paths_of(prog, f)
        text_sink = False
        bad = False
        for p in ps:
            tried_text = False
            for e in p.events:
                if e[0] == "attempt" and "text" in _ctor_sinks(e[1]):
                    tried_text = True
            nontext = any((not pol) and T.is_call_to(g, "builtins.isinstance") and g[2] == (DECODE, ("ref", "builtins.str")) for g, pol in p.guards())
            if p.exit[0] == "return":
                sinks = _ctor_sinks(p.exit[1])
                if "text" in sinks:
                    text_sink = True
                if "parsed" in sinks and not (tried_text or nontext):
                    bad = True
        rep.check(
            text_sink and not bad, "R04.6", f"{r.pred_name}->{r.routine.name}", f.loc,
            f"the wire text reaches {r.routine.name}'s constructor as text (the JSON/literal loader only runs after that attempt)",
            f"the wire text is run through serdes.load() before the target constructor ever sees it: {why}",
            detail="text-first",
        )  # fmt: skip


def r04_8(prog: Program, rep: Report, pe, urows):
    """Numbers given for date/datetime/time are read through datetime.fromtimestamp(x, UTC), unaltered."""
    for cls in ("datetime.date", "datetime.datetime", "datetime.time"):
        k, r = C.route(prog, pe, urows, C.TypeArg(cls))
        if k != "row" or r.routine is None:
            continue
        f = C.call_of(prog, r.routine)
        numeric_paths = 0
        ok = True
        why = ""
        for p in P.paths_of(prog, f):
            numeric = any(pol and T.is_call_to(g, "builtins.isinstance") and g[2][0] in (VAL, DECODE) and _numeric_classes(g[2][1]) for g, pol in p.guards())
            if not numeric or p.exit[0] != "return":
                continue
            ret = p.exit[1]
            if not T.contains(ret, lambda y: y == VAL):
                # e.g. the "time-only text means today" branch: not reachable with a number, and independent of it
                continue
            numeric_paths += 1
            ft = [s for s in T.walk(ret) if T.is_call_to(s, "datetime.datetime.fromtimestamp")]
            if not ft or not any(s[2][:1] in ((VAL,), (DECODE,)) for s in ft):
                ok, why = False, "the number does not flow, unaltered, through datetime.fromtimestamp(x, tz=UTC)"
            lossy = [s for s in T.walk(ret) if (T.is_call_to(s, "builtins.int", "builtins.round", "math.floor", "math.trunc") or (s[0] == "binop" and s[1] in ("//", "/", "%"))) and T.contains(s, lambda y: y == VAL)]
            if lossy:
                ok, why = False, f"the number is altered before it is read ({T.show(lossy[0])[:60]}): int() truncates toward zero, so pre-epoch values land on the wrong day"
        rep.check(ok and numeric_paths > 0, "R04.8", f"{r.pred_name}->{r.routine.name}", f.loc, f"{cls}: numbers are read through fromtimestamp(x, UTC) unaltered ({numeric_paths} numeric paths)", f"{cls}: {why or 'no numeric path found'}", detail="epoch")


def r04_11(prog: Program, rep: Report):
    """Reader/writer pairing for the temporal text: times and datetimes are *written* with the stdlib isoformat(); a reader
    that starts with a parser which is not its inverse loses what that parser does not understand.  The exact inverse
    (`<class>.fromisoformat`) must be attempted before any parser listed in oracle.LOSSY_PARSERS."""
    f = prog.function(f"{C.SERDES}.dateparse")
    lossy_first = []
    exact_seen = False
    tparam = ("param", f.params[1]) if len(f.params) > 1 else None
    for p in P.splice_helpers(prog, P.paths_of(prog, f)):
        # targets other than time / datetime (dates, durations) are written without an offset: exempt
        other_target = any((not pol) and T.is_call_to(g, "builtins.issubclass") and g[2][:1] == (tparam,) and {"datetime.datetime", "datetime.time"} <= {T.refname(y) for y in (P.flatten_display(prog, g[2][1]) or [g[2][1]])} for g, pol in p.guards())
        if other_target:
            continue
        order = []
        for tm in p.all_terms():
            for x in T.walk(tm):
                if x[0] == "call":
                    rn = T.refname(x[1])
                    if rn in oracle.LOSSY_PARSERS:
                        order.append(("lossy", rn))
                    if (rn or "").endswith(".fromisoformat") or (x[1][0] == "attr" and x[1][2] == "fromisoformat"):
                        order.append(("exact", rn or "fromisoformat"))
        kinds = [k for k, _ in order]
        if "exact" in kinds:
            exact_seen = True
        if "lossy" in kinds and ("exact" not in kinds or kinds.index("lossy") < kinds.index("exact")):
            lossy_first.append(order[kinds.index("lossy")][1])
    rep.check(exact_seen and not lossy_first, "R04.11", f.qualname, f.loc, "the text of a time / datetime is first read with the inverse of its writer (fromisoformat)", f"dateparse hands the text straight to {sorted(set(lossy_first))[:1]}, which {oracle.LOSSY_PARSERS.get(lossy_first[0], '') if lossy_first else ''}: time(1, 2, 3, tzinfo=+05:30) is written '01:02:03+05:30' and read back at UTC; an offset with seconds ('+00:09:21', what zoneinfo gives for 1900) is rejected", detail="inverse-first")


def r04_12(prog: Program, rep: Report, urows, pe):
    """Durations are exact to the microsecond on the read side too: (a) the reader takes a leading sign off the text before
    the third-party parser sees it (the writer emits one; pendulum reads none); (b) the routine does not rebuild the result
    through the float total_seconds() (53 bits: microseconds are lost beyond 2**33 seconds)."""
    f = prog.function(f"{C.SERDES}.dateparse")
    val = ("param", f.params[0])
    tparam = ("param", f.params[1]) if len(f.params) > 1 else None
    signed = False
    for p in P.paths_of(prog, f):
        gs = [g for g, pol in p.guards() if pol]
        is_td = any(T.contains(g, lambda x: T.is_call_to(x, "builtins.issubclass") and x[2][:1] == (tparam,) and T.contains(x[2][1], lambda y: T.refname(y) == "datetime.timedelta")) for g in gs)
        looks_at_sign = any(T.contains(g, lambda x: (x[0] == "sub" and x[1] == val) or (x[0] == "call" and x[1][0] == "attr" and x[1][1] == val and x[1][2] == "startswith")) for g in gs)
        if is_td and looks_at_sign:
            signed = True
    rep.check(signed, "R04.12", f.qualname, f.loc, "a signed duration text is taken apart (sign, magnitude) before the ISO parser reads the magnitude", "dateparse passes duration text to the parser as is; the parser accepts no sign, so the text the writer emits for every negative timedelta cannot be read back (ParserError)", detail="reader-sign")
    # (c) the sign is applied to whole microseconds: the parser's Duration class overrides the arithmetic operators
    #     (__neg__, __mul__, __abs__, division) and rebuilds the result from the float total
    is_parsed = lambda y: T.is_call_to(y, f"{C.SERDES}.dateparse", "pendulum.parse", "pendulum.duration", f"{C.SERDES}._nomalize_dt")  # noqa: E731
    floaty_ops = []
    for p, ret in P.returns(P.paths_of(prog, f)):
        for x in T.walk(ret):
            if x[0] == "unop" and x[1] in ("-", "+") and is_parsed(x[2]):
                floaty_ops.append(T.show(x)[:60])
            if x[0] == "binop" and x[1] in ("*", "/", "//", "%") and (is_parsed(x[2]) or is_parsed(x[3])):
                floaty_ops.append(T.show(x)[:60])
            if T.is_call_to(x, "builtins.abs") and x[2] and is_parsed(x[2][0]):
                floaty_ops.append(T.show(x)[:60])
    rep.check(not floaty_ops, "R04.12", f.qualname, f.loc, "no arithmetic operator is applied to a parsed Duration itself (the sign is applied on whole microseconds)", f"an arithmetic operator is applied to the parser's Duration ({floaty_ops[0] if floaty_ops else ''}): pendulum.Duration.__neg__/__mul__/__abs__ rebuild the result from float total_seconds(), so a negative duration beyond 2**33 seconds comes back with wrong microseconds ('-P99421DT0.000001S' reads back a few µs off)", detail="sign-exact")
    # (d) which path a signed / unsigned duration text takes, and what is parsed on it.  The guards on the text are
    #     interpreted (terms.ceval) on three witnesses; the returned term is matched structurally.
    td_paths = []
    for p, ret in P.returns(P.paths_of(prog, f)):
        atoms = T.derive_atoms(p.guards())
        if any((not val_) and T.is_call_to(a, "builtins.issubclass") and a[2][:1] == (tparam,) and T.contains(a[2][1], lambda y: T.refname(y) == "datetime.timedelta") for a, val_ in atoms):
            continue  # a path for another target class
        if any(e[0] in ("caught",) for e in p.events):
            continue  # the numeric fallback after the parser declined
        td_paths.append((p, ret))
    ONE = ("call", ("ref", "datetime.timedelta"), (), (("microseconds", ("const", 1)),))
    is_rec = lambda y: T.is_call_to(y, f"{C.SERDES}.dateparse") and y[2]  # noqa: E731
    problems, undecided = [], None
    # the target class is timedelta: every class test on the type parameter is decided
    class_env = {}
    for p, _ret in td_paths:
        for g, _pol in p.guards():
            for y in T.walk(g):
                if T.is_call_to(y, "builtins.issubclass") and y[2][:1] == (tparam,):
                    class_env[y] = T.contains(y[2][1], lambda z: T.refname(z) == "datetime.timedelta")
    # (a tuple of sign characters that has been given a name at module level is the tuple)
    for p, _ret in td_paths:
        for g, _pol in p.guards():
            for y in T.walk(g):
                if y[0] == "ref" and y[1].startswith("typelib.") and y not in class_env:
                    items = P.flatten_display(prog, y)
                    if items is not None and all(it[0] == "const" for it in items):
                        class_env[y] = tuple(it[1] for it in items)
    for w, want in (("-PT1S", "negated"), ("+PT1S", "plain"), ("PT1S", "unsigned")):
        taken = []
        for p, ret in td_paths:
            textual = [(g, pol) for g, pol in p.guards() if (T.contains(g, lambda x: x == val) or g in class_env) and not T.contains(g, lambda x: x[0] == "call" and x[1][0] == "attr" and x[1][2] == "fromisoformat")]
            try:
                if all(bool(T.ceval(g, {val: w, **class_env})) == pol for g, pol in textual):
                    taken.append((p, ret))
            except T.Undecidable as e:
                undecided = str(e)
        if undecided:
            break
        kinds = set()
        for p, ret in taken:
            # (a returned conditional expression on the sign character is the arm this witness selects)
            def _pick(y, w=w):
                if y[0] == "ifexp":
                    try:
                        return y[2] if T.ceval(y[1], {val: w, **class_env}) else y[3]
                    except T.Undecidable:
                        return None
                return None
            ret = T.rewrite(ret, _pick)
            recs = [y for y in T.walk(ret) if is_rec(y)]
            if not recs:
                kinds.add("unsigned")
                continue
            try:
                arg = T.ceval(recs[0][2][0], {val: w})
            except T.Undecidable as e:
                undecided = str(e)
                break
            if arg != w[1:]:
                problems.append(f"for {w!r} the magnitude is parsed from {arg!r}, not from {w[1:]!r}")
            if ret == recs[0]:
                kinds.add("plain")
            else:
                kinds.add("negated")
                fl = [y for y in T.walk(ret) if (T.is_call_to(y, "datetime.timedelta.__floordiv__") and len(y[2]) == 2) or (y[0] == "binop" and y[1] == "//")]
                if fl:
                    a, b = (fl[0][2][0], fl[0][2][1]) if fl[0][0] == "call" else (fl[0][2], fl[0][3])
                    unit_ok = b == ONE and T.contains(a, is_rec) and T.contains(ret, lambda y: y[0] == "binop" and y[1] == "*" and ONE in (y[2], y[3])) and T.contains(ret, lambda y: y[0] == "unop" and y[1] == "-")
                    if not unit_ok:
                        problems.append(f"the negation of {w!r} does not go through whole microseconds (magnitude // timedelta(microseconds=1), negated, times that unit): {T.show(ret)[:90]}")
        if undecided:
            break
        if not taken:
            problems.append(f"no path of dateparse is open to {w!r}")
        elif kinds != {want}:
            problems.append(f"{w!r} is read on a path that returns the {sorted(kinds)} form, not the {want} one")
    if undecided:
        rep.undecided("R04.12", f.qualname, f.loc, f"the path a signed duration text takes could not be interpreted ({undecided})", detail="reader-sign-paths")
    else:
        rep.check(not problems, "R04.12", f.qualname, f.loc, "'-…' is parsed from the text after the sign and negated on whole microseconds, '+…' is parsed from the text after the sign, unsigned text goes to the parser as it is", "; ".join(problems[:3]) + " -- what isoformat() writes for a negative timedelta does not read back as that timedelta", detail="reader-sign-paths")
    k, r = C.route(prog, pe, urows, C.TypeArg("datetime.timedelta"))
    if k != "row" or r.routine is None:
        rep.undecided("R04.12", "unmarshal:timedelta", "", "timedelta routine not found", detail="exact-rebuild")
        return
    cf = C.call_of(prog, r.routine)
    floaty = []
    for p, ret in P.returns(P.paths_of(prog, cf)):
        if T.contains(ret, lambda x: x[0] == "call" and x[1][0] == "attr" and x[1][2] == "total_seconds") and not any(T.is_call_to(g, "builtins.isinstance") and pol and T.contains(g[2][1], lambda y: T.refname(y) in ("builtins.int", "builtins.float")) for g, pol in p.guards()):
            floaty.append(T.show(ret)[:80])
    # the parsed value is a pendulum.Duration: its days/seconds/microseconds *properties* are recomputed from the float
    # total (oracle.DURATION_FLOAT_ATTRS); only the base class's own operations read the exact fields
    is_parse = lambda y: T.is_call_to(y, f"{C.SERDES}.dateparse")  # noqa: E731
    for p, ret in P.returns(P.paths_of(prog, cf)):
        if any(T.is_call_to(g, "builtins.isinstance") and pol and T.contains(g[2][1], lambda y: T.refname(y) in ("builtins.int", "builtins.float")) for g, pol in p.guards()):
            continue
        hits = [x for x in T.walk(ret) if x[0] == "attr" and x[2] in oracle.DURATION_FLOAT_ATTRS and T.contains(x[1], is_parse) and x != ret]
        if hits and "total_seconds" not in {h[2] for h in hits}:
            floaty.append(f"reads .{hits[0][2]} of the parsed value")
    rep.check(not floaty, "R04.12", r.routine.qualname, cf.loc, "a parsed duration is rebuilt from whole microseconds / exact fields, not from float seconds", f"the parsed duration is rebuilt through total_seconds() ({floaty[0] if floaty else ''}): a float has 53 bits, so beyond 2**33 seconds (about 272 years) microseconds come back wrong — 'P99420DT12H56M32.000001S' reads back as …000002", detail="exact-rebuild")


def r04_9(prog: Program, rep: Report):
    """unixtime(): durations -> total_seconds(); times -> today in the value's own zone with all four clock fields;
    parser normalisation tests the narrower class first (datetime before date)."""
    f = prog.function(f"{C.SERDES}.unixtime")
    dt = ("param", f.params[0])
    td_ok = time_ok = False
    for p, r in P.returns(P.paths_of(prog, f)):
        if any(pol and T.is_call_to(g, "builtins.isinstance") and g[2] == (dt, ("ref", "datetime.timedelta")) for g, pol in p.guards()):
            td_ok = r == ("call", ("attr", dt, "total_seconds"), (), ())
        for s in T.walk(r):
            if s[0] == "call" and s[1][0] == "attr" and s[1][2] == "replace" and T.contains(s[1][1], lambda y: y[0] == "call" and ((y[1][0] == "attr" and y[1][2] == "now") or T.refname(y[1]) == "datetime.datetime.now")):
                kw = dict(s[3])
                now = s[1][1]
                tz = dict(now[3]).get("tz") or (now[2][0] if now[2] else None)
                if all(kw.get(k) == ("attr", dt, k) for k in ("hour", "minute", "second", "microsecond")) and tz == ("attr", dt, "tzinfo"):
                    time_ok = True
    # timestamp() of an aware datetime is offset arithmetic and total; converting to another zone first recomputes the
    # wall-clock fields, which do not exist for instants before 0001-01-01 / after 9999-12-31 in that zone
    rezoned = [T.show(r)[:80] for _, r in P.returns(P.paths_of(prog, f)) if T.contains(r, lambda x: x[0] == "call" and x[1][0] == "attr" and x[1][2] in ("astimezone", "utctimetuple", "in_timezone", "in_tz"))]
    rep.check(not rezoned, "R04.9", f.qualname, f.loc, "the datetime's own timestamp() is taken (no zone conversion on the way)", f"unixtime converts the datetime to another zone before taking the timestamp ({rezoned[0] if rezoned else ''}): astimezone() raises OverflowError when the wall clock in that zone falls outside years 1..9999 (datetime(1,1,1,tzinfo=+14:00), datetime(9999,12,31,23,tzinfo=-12:00)), values whose timestamp() is well defined", detail="no-rezone")
    # a date is placed at UTC midnight -- a datetime (which is a date, too) is not: wherever a datetime is *built* from
    # year/month/day alone the path has established that the value is no datetime
    widened = []
    for pth in P.paths_of(prog, f):
        builds = [x for tm in pth.all_terms() for x in T.walk(tm) if T.is_call_to(x, "datetime.datetime") and {"year", "month", "day"} <= set(dict(x[3])) and "hour" not in dict(x[3])]
        if not builds:
            continue
        atoms = T.derive_atoms(pth.guards())
        y_arg = dict(builds[0][3])["year"]
        subject = y_arg[1] if y_arg[0] == "attr" else dt  # the value whose date is taken
        if not any((not val_) and T.is_call_to(a, "builtins.isinstance") and a[2][:1] == (subject,) and T.contains(a[2][1], lambda y: T.refname(y) == "datetime.datetime") for a, val_ in atoms):
            widened.append(T.show(builds[0])[:60])
    rep.check(not widened, "R04.9", f.qualname, f.loc, "only a plain date is placed at UTC midnight", "a datetime, too, can be replaced by midnight UTC of its date (the date arm does not exclude datetime, which is a date): unixtime(datetime(2020, 1, 1, 12, tzinfo=utc)) loses the time of day and the offset", detail="date-arm-excludes-datetime")
    rep.check(td_ok, "R04.9", f.qualname, f.loc, "a duration becomes its total_seconds()", "unixtime(timedelta) is not dt.total_seconds()", detail="timedelta")
    rep.check(time_ok, "R04.9", f.qualname, f.loc, "a time is placed on today's date in its own zone, hour/minute/second/microsecond copied", "unixtime(time) does not copy all four clock fields onto now(tz=dt.tzinfo)", detail="time")
    for name in ("_nomalize_dt", "_normalize_number"):
        g = prog.functions.get(f"{C.SERDES}.{name}")
        if g is None:
            continue
        # on every path that decides for `date`, `datetime` has been excluded first
        ok = True
        seen = False
        for p in P.paths_of(prog, g):
            tests = [(T.refname(gd[2][1]), pol) for gd, pol in p.guards() if T.is_call_to(gd, "builtins.issubclass") and len(gd[2]) == 2 and gd[2][0] == ("param", "td")]
            names = [n for n, _ in tests]
            # (tests that are conjuncts of a named condition -- `is_moment and issubclass(td, …)` -- are read off the path's atoms:
            #  a conjunction that failed while its other conjunct is known to hold decides the class test)
            known = {}
            for gd, pol in p.guards():
                if gd[0] == "boolop" and gd[1] == "and" and pol:
                    for o in gd[2]:
                        known[o] = True
                else:
                    known.setdefault(gd, pol)
            for gd, pol in p.guards():
                if gd[0] == "boolop" and gd[1] == "and" and not pol:
                    rest = [o for o in gd[2] if known.get(o) is not True]
                    if len(rest) == 1:
                        known.setdefault(rest[0], False)
            derived = [(T.refname(a[2][1]), v) for a, v in known.items() if T.is_call_to(a, "builtins.issubclass") and len(a[2]) == 2 and a[2][0] == ("param", "td")]
            if ("datetime.date", True) in tests:
                seen = True
                if ("datetime.datetime", False) not in tests[: names.index("datetime.date")] and ("datetime.datetime", False) not in derived:
                    ok = False
            elif ("datetime.date", True) in derived:
                seen = True
                if ("datetime.datetime", False) not in derived:
                    ok = False
        rep.check(ok, "R04.9", g.qualname, g.loc, "the date arm is reached only after datetime was excluded (datetime is a date)" if seen else "no explicit date arm (falls through after datetime/time)", "the date test precedes the datetime test: a datetime target is truncated to a date", detail="narrow-first")


def r04_10(prog: Program, rep: Report, rule="R04.10"):
    """No memoised serdes function renders a value whose equality is coarser than its text (same instant at two offsets,
    Decimal('1.10') vs Decimal('1.1'), a month vs 30 days) — shared with R12.3; and decode() turns a memoryview into the
    bytes of the view itself."""
    from ..report import Report as _R
    from . import c12

    sub = _R("C04", rep.tier)
    sub.rule("R12.3", "", 0)
    c12.r12_3(prog, sub)
    n = 0
    for o in sub.obligations:
        if "@typelib.serdes." not in o.key and "@typelib.marshals.routines." not in o.key and "@typelib.unmarshals.routines." not in o.key:
            continue
        o.key = o.key.replace("R12.3@", rule + "@")
        o.rule = rule
        rep.obligations.append(o)
        rep.rules[rule]["instances"] += 1
        n += 1
    memo = prog.memoised_functions()
    serdes_memo = sorted(q for q in memo if q.startswith(C.SERDES + "."))
    rep.held(rule, C.SERDES, "", f"memoised serdes functions examined: {[q.rsplit('.', 1)[-1] for q in serdes_memo]}", detail="scan")
    # memoryview -> bytes of the view
    f = prog.function(f"{C.SERDES}.decode")
    v = ("param", f.params[0])
    ok = bad = False
    for p in P.paths_of(prog, f):
        for tm in p.all_terms():
            for s0 in T.walk(tm):
                if s0[0] == "ifexp" and T.is_call_to(s0[1], "builtins.isinstance") and s0[1][2] == (v, ("ref", "builtins.memoryview")):
                    conv = s0[2]
                    if conv == ("call", ("attr", v, "tobytes"), (), ()) or (T.is_call_to(conv, "builtins.bytes") and conv[2] == (v,)):
                        ok = True
                    else:
                        bad = True
        for g, pol in p.guards():
            if pol and T.is_call_to(g, "builtins.isinstance") and g[2] == (v, ("ref", "builtins.memoryview")):
                for e in p.events:
                    if e[0] == "assign" and T.contains(e[2], lambda y: y == ("attr", v, "obj")):
                        bad = True
                    if e[0] == "assign" and (e[2] == ("call", ("attr", v, "tobytes"), (), ()) or (T.is_call_to(e[2], "builtins.bytes") and e[2][2] == (v,))):
                        ok = True
    rep.check(ok and not bad, rule, f.qualname, f.loc, "a memoryview is decoded from the bytes of the view itself (tobytes())", "a memoryview is not converted with tobytes()/bytes(view): `.obj` is the whole exporting buffer, so a sliced view decodes bytes outside its window", detail="memoryview")


def r04_14(prog: Program, rep: Report):
    """A UTC offset is a signed duration: `timedelta.seconds` (and `.days`) are the *normalised* fields -- for -05:00 they are
    days=-1, seconds=68400 -- so an offset read through `.seconds` turns every zone west of Greenwich into one nineteen hours
    east.  Wherever the temporal code takes the components of an offset it goes through total_seconds() (or keeps the offset)."""
    n, bad = 0, []
    mods = ("typelib.serdes", "typelib.unmarshals.routines", "typelib.marshals.routines")
    for q, f in sorted(prog.functions.items()):
        if not q.startswith(mods):
            continue
        try:
            ps = P.paths_of(prog, f)
        except Exception:
            continue
        touches = False
        for pth in ps:
            for tm in pth.all_terms():
                for x in T.walk(tm):
                    if x[0] == "call" and x[1][0] == "attr" and x[1][2] == "utcoffset":
                        touches = True
                    if x[0] == "attr" and x[2] in ("seconds", "days", "microseconds") and T.contains(x[1], lambda y: y[0] == "call" and y[1][0] == "attr" and y[1][2] == "utcoffset"):
                        bad.append(f"{f.name}: {T.show(x)[:60]}")
        n += touches
    rep.check(not bad, "R04.14", "typelib.serdes", "", f"no UTC offset is taken apart through the normalised timedelta fields ({n} function(s) read an offset)", f"a UTC offset is read through a normalised timedelta field ({sorted(set(bad))[:2]}): for a negative offset `.seconds` is 86400 minus the magnitude -- '…-05:00' comes back as +19:00, another instant and another offset", detail="offset-fields")


def run(prog: Program, rep: Report, tier: str):
    rep.rule("R04.14", "a UTC offset is never taken apart through timedelta.seconds / .days", floor=1)
    r04_14(prog, rep)
    rep.rule("R04.10", "no memoised renderer of coarse-equality values in serdes; memoryview decoded from its own bytes", floor=2)
    rep.rule("R04.11", "the reader of temporal text starts with the inverse of the writer", floor=1)
    r04_11(prog, rep)
    rep.rule("R04.9", "unixtime and parser-normalisation contracts", floor=3)
    rep.rule("R04.8", "numbers for date/datetime/time go through fromtimestamp(x, UTC) unaltered", floor=3)
    rep.rule("R04.6", "canonical text reaches the target constructor before the lossy loader", floor=3)
    rep.rule("R04.7", "temporal reconstructions keep every field incl. offset and fold (shared with R01.3)", floor=3)
    rep.rule("R04.1", "epoch/UTC call-site discipline (fromtimestamp, now, date lift)", floor=8)
    rep.rule("R04.2", "duration writer against the ISO-8601 designator table, order, fraction, coverage, language", floor=12)
    rep.rule("R04.3", "number -> timedelta only as seconds=", floor=2)
    rep.rule("R04.4", "no lossy narrowing on the numeric path", floor=2)
    rep.rule("R04.5", "temporal -> text/number through isoformat/unixtime under the matching guard", floor=6)
    pe = C.PredEval(prog)
    urows = C.handlers(prog, "unmarshal")
    r04_1(prog, rep)
    duration_writer(prog, rep)
    r04_3_4(prog, rep, pe, urows)
    rep.rule("R04.13", "no parseable text is handed back unparsed by a shortcut of strload (shared with R14.4; guards interpreted on a witness catalogue)", floor=1)
    from . import c14 as _c14

    _entry, _parser, _ = _c14.parse_function(prog)
    _c14.text_shortcuts(prog, rep, _entry, _parser, "R04.13")
    _c14.long_integers_exact(prog, rep, "R04.13")
    rep.rule("R04.12", "durations are read back exactly: signed text taken apart, no float rebuild", floor=2)
    r04_12(prog, rep, urows, pe)
    r04_5(prog, rep, pe, urows)
    r04_6(prog, rep, pe, urows)
    r04_8(prog, rep, pe, urows)
    r04_9(prog, rep)
    r04_10(prog, rep)
    # exact-class reconstruction keeps every field, offset and fold included (shared with R01.3)
    from ..report import Report as _R, absorb
    from . import c01

    sub = _R("C04", rep.tier)
    sub.rule("R01.3", "", 0)
    c01.r01_3(prog, sub, urows, pe)
    absorb(rep, sub, {"R01.3": "R04.7"})
