"""tlverif — repository-specific static analysis deciding the properties in /verif/properties.jsonl."""
