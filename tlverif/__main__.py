from __future__ import annotations

import argparse
import importlib
import json
import sys
import traceback

from . import model, report

PROPS = [f"C{i:02d}" for i in range(1, 21)]


def run_one(prop: str, tier: str, replay: str | None = None) -> int:
    seed = report.seed_from_env()
    rep = report.Report(prop, tier)
    prog = None
    try:
        mod = importlib.import_module(f"tlverif.rules.{prop.lower()}")
        from .rules import common as _common

        _common.THOROUGH = tier == "thorough"
        prog = model.Program()
        mod.run(prog, rep, tier)
        from .rules import wellformed as _wf

        _wf.run(prog, rep, prop)
        if replay:
            want = json.load(open(replay))["key"]
            hits = [o for o in rep.obligations if o.key == want]
            for o in hits:
                print(f"REPLAY {o.key}: {o.status} at {o.loc}: {o.text}")
            if not hits:
                print(f"REPLAY {want}: obligation no longer generated on this tree")
        return rep.finish(
            prog,
            seed,
            getattr(mod, "ASSUMPTIONS", []),
            getattr(mod, "TRUSTED", []),
            getattr(mod, "EXPLANATION", ""),
            getattr(mod, "EXHAUSTIVE", False),
        )
    except BrokenPipeError:
        # the reader of our stdout went away; the evidence file is already written
        return 0 if not any(o.status != "held" for o in rep.obligations) else 1
    except model.AnalysisError as e:
        print(f"ANALYSIS-ERROR property={prop} {e}")
        report.write_failure_evidence(prop, tier, seed, str(e))
        return 2
    except Exception as e:  # checker bug: never look like a violation
        traceback.print_exc()
        print(f"ANALYSIS-ERROR property={prop} checker exception {type(e).__name__}: {e}")
        report.write_failure_evidence(prop, tier, seed, f"{type(e).__name__}: {e}")
        return 2


def main(argv=None) -> int:
    ap = argparse.ArgumentParser(prog="tlverif")
    ap.add_argument("prop", help="property id (C01..C20), 'all', or 'selftest'")
    ap.add_argument("--tier", default=None, choices=["quick", "thorough"])
    ap.add_argument("--replay", default=None)
    ap.add_argument("--jobs", type=int, default=16)
    a = ap.parse_args(argv)
    import os

    tier = a.tier or os.environ.get("VERIF_TIER") or "quick"
    if tier not in ("quick", "thorough"):
        tier = "quick"
    if a.prop == "selftest":
        from . import selftest

        return selftest.main(a.jobs)
    if a.prop == "all":
        worst = 0
        for p in PROPS:
            try:
                importlib.import_module(f"tlverif.rules.{p.lower()}")
            except ModuleNotFoundError:
                continue
            worst = max(worst, run_one(p, tier))
        return worst
    code = run_one(a.prop.upper(), tier, a.replay)
    if tier == "thorough" and code == 0:
        from . import selftest

        code = selftest.main(a.jobs, only=a.prop.upper(), strict=False)
        # record what the both-ways self-test covered in this property's evidence
        import json
        import pathlib

        ev = pathlib.Path(__file__).resolve().parent.parent / "evidence" / f"{a.prop.upper()}.json"
        if ev.exists() and selftest.LAST:
            d = json.loads(ev.read_text())
            d["coverage"]["selftest"] = dict(selftest.LAST)
            d["coverage"]["explanation"] += " Thorough tier: extended catalogue / signature bounds, then every single-edit variant of this property (break variants must be reported with the expected obligation, behaviour-neutral variants must stay silent)."
            ev.write_text(json.dumps(d, indent=1, default=str) + "\n")
    return code


if __name__ == "__main__":
    sys.exit(main())
