"""Program model of /repo/src/typelib: modules, imports, classes, aliases — resolved, not textual."""

from __future__ import annotations

import ast
import builtins
import dataclasses
import hashlib
import os
import pathlib
import sys
import typing as t

PKG = "typelib"
MIN_MODULES = 20


class AnalysisError(Exception):
    """The analysis cannot be carried out (anchor vanished, parse failure, idiom not understood)."""


def repo_root() -> pathlib.Path:
    return pathlib.Path(os.environ.get("TLVERIF_REPO", "/repo"))


@dataclasses.dataclass
class FuncInfo:
    name: str
    qualname: str  # module-qualified: typelib.serdes.load / typelib.x.Class.method
    module: "Module"
    node: ast.FunctionDef
    cls: "ClassInfo | None" = None
    decorators: list = dataclasses.field(default_factory=list)  # resolved names (str) or None
    bound: "ClassInfo | None" = None  # the concrete class an inherited method is analysed for (class attributes resolve there)

    @property
    def loc(self) -> str:
        return f"{self.module.relpath}:{self.node.lineno}"

    @property
    def params(self) -> list[str]:
        a = self.node.args
        names = [x.arg for x in a.posonlyargs + a.args]
        if a.vararg:
            names.append(a.vararg.arg)
        names += [x.arg for x in a.kwonlyargs]
        if a.kwarg:
            names.append(a.kwarg.arg)
        return names


@dataclasses.dataclass
class ClassInfo:
    name: str
    qualname: str
    module: "Module"
    node: ast.ClassDef
    bases: list[str] = dataclasses.field(default_factory=list)  # resolved names, subscripts stripped
    methods: dict[str, FuncInfo] = dataclasses.field(default_factory=dict)
    assigns: dict[str, ast.expr] = dataclasses.field(default_factory=dict)
    decorators: list = dataclasses.field(default_factory=list)

    @property
    def loc(self) -> str:
        return f"{self.module.relpath}:{self.node.lineno}"


class Module:
    def __init__(self, name: str, path: pathlib.Path, relpath: str, src: str):
        self.name = name
        self.path = path
        self.relpath = relpath
        self.src = src
        self.tree = ast.parse(src, filename=str(path))
        self.digest = hashlib.sha256(src.encode()).hexdigest()
        self.is_package = path.name == "__init__.py"
        # local name -> qualified dotted target (module or module.attr)
        self.imports: dict[str, str] = {}
        self.star_imports: list[str] = []
        self.functions: dict[str, FuncInfo] = {}
        self.classes: dict[str, ClassInfo] = {}
        # module-level simple assignments: name -> value expr (last one wins)
        self.assigns: dict[str, ast.expr] = {}
        self.assign_nodes: dict[str, ast.stmt] = {}
        self.all_names: list[str] | None = None
        self.toplevel: list[ast.stmt] = []  # flattened live top-level statements

    def __repr__(self):
        return f"<Module {self.name}>"


def _eval_static_test(test: ast.expr) -> bool | None:
    """Decide module-level `if` tests that select compatibility branches."""
    src = ast.unparse(test)
    if src in ("TYPE_CHECKING", "typing.TYPE_CHECKING", "t.TYPE_CHECKING", "tp.TYPE_CHECKING"):
        return False
    if isinstance(test, ast.Compare) and len(test.ops) == 1:
        left = ast.unparse(test.left)
        if left == "sys.version_info" and isinstance(test.comparators[0], ast.Tuple):
            try:
                rhs = tuple(ast.literal_eval(test.comparators[0]))
            except Exception:
                return None
            # facts of the interpreter the repository runs on
            cur = target_version()
            op = test.ops[0]
            if isinstance(op, ast.GtE):
                return cur >= rhs
            if isinstance(op, ast.Gt):
                return cur > rhs
            if isinstance(op, ast.Lt):
                return cur < rhs
            if isinstance(op, ast.LtE):
                return cur <= rhs
    return None


def target_version() -> tuple:
    return tuple(sys.version_info[:2])


class Program:
    def __init__(self, root: pathlib.Path | None = None):
        self.root = root or repo_root()
        self.src_root = self.root / "src"
        self.modules: dict[str, Module] = {}
        self._load()
        for m in self.modules.values():
            self._index_module(m)
        self._star_fix()
        self.classes: dict[str, ClassInfo] = {}
        self.functions: dict[str, FuncInfo] = {}
        for m in self.modules.values():
            for c in m.classes.values():
                self.classes[c.qualname] = c
                for f in c.methods.values():
                    self.functions[f.qualname] = f
            for f in m.functions.values():
                self.functions[f.qualname] = f
        self._alias: dict[str, str] = {}
        self._apply_role_aliases()
        for c in self.classes.values():
            c.bases = [b for b in (self._resolve_base(c.module, b) for b in c.node.bases) if b]
            c.decorators = [self.resolve_expr_name(c.module, d.func if isinstance(d, ast.Call) else d) for d in c.node.decorator_list]
        for f in self.functions.values():
            f.decorators = [self.resolve_expr_name(f.module, d.func if isinstance(d, ast.Call) else d) for d in f.node.decorator_list]

    # ------------------------------------------------------------------ private helpers by role
    def _apply_role_aliases(self):
        """Rules name a few *private* helpers.  A helper that is gone under its usual name is looked for by its role --
        the one private, module-level function of the same module with the same number of parameters that the named public
        function calls -- and, when exactly one fits, known under the usual name from then on (its refs resolve to that name,
        obligation keys stay stable).  Nothing is guessed when zero or several candidates fit: the anchor stays missing."""
        for canon, (callers, npar) in ROLE_ANCHORS.items():
            if canon in self.functions:
                continue
            modname = canon.rpartition(".")[0]
            mod = self.modules.get(modname)
            if mod is None:
                continue
            cands = set()
            for cq in callers:
                cf = self.functions.get(cq)
                if cf is None:
                    continue
                for n in ast.walk(cf.node):
                    if not isinstance(n, ast.Call):
                        continue
                    q = self.resolve_expr_name(cf.module, n.func)
                    g = self.functions.get(q or "")
                    if g is None or g.cls is not None or g.module is not mod or not g.name.startswith("_") or g.name.startswith("__"):
                        continue
                    if q in ROLE_ANCHORS or q in self._alias:
                        continue
                    a = g.node.args
                    if npar is not None and len(a.posonlyargs + a.args + a.kwonlyargs) != npar:
                        continue
                    if npar is None and a.vararg is None:
                        continue
                    must = ROLE_MUST_CALL.get(canon)
                    if must and not any(isinstance(x, ast.Call) and self.resolve_expr_name(g.module, x.func) == must for x in ast.walk(g.node)):
                        continue
                    cands.add(q)
            if len(cands) != 1:
                continue
            real = cands.pop()
            fi = self.functions.pop(real)
            self._alias[real] = canon
            fi.qualname = canon
            self.functions[canon] = fi
            mod.functions[canon.rpartition(".")[2]] = fi

    # ------------------------------------------------------------------ loading
    def _load(self):
        pkg_dir = self.src_root / PKG
        if not pkg_dir.is_dir():
            raise AnalysisError(f"package directory {pkg_dir} not found")
        files = sorted(pkg_dir.rglob("*.py"))
        for p in files:
            rel = p.relative_to(self.src_root)
            parts = list(rel.with_suffix("").parts)
            if parts[-1] == "__init__":
                parts = parts[:-1]
            name = ".".join(parts)
            try:
                src = p.read_text()
                self.modules[name] = Module(name, p, str(pathlib.Path("src") / rel), src)
            except SyntaxError as e:
                raise AnalysisError(f"syntax error in {p}: {e}") from e
        if len(self.modules) < MIN_MODULES:
            raise AnalysisError(f"only {len(self.modules)} modules found under {pkg_dir}, expected >= {MIN_MODULES}")

    def _live_statements(self, body: list[ast.stmt]) -> t.Iterator[ast.stmt]:
        """Flatten module-level if/try into the statements live on the target interpreter."""
        for s in body:
            if isinstance(s, ast.If):
                v = _eval_static_test(s.test)
                if v is True:
                    yield from self._live_statements(s.body)
                elif v is False:
                    yield from self._live_statements(s.orelse)
                else:
                    yield from self._live_statements(s.body)
                    yield from self._live_statements(s.orelse)
            elif isinstance(s, ast.Try):
                yield from self._live_statements(s.body)
                yield from self._live_statements(s.orelse)
                yield from self._live_statements(s.finalbody)
            else:
                yield s

    def _index_module(self, m: Module):
        m.toplevel = list(self._live_statements(m.tree.body))
        pkg_parts = m.name.split(".") if m.is_package else m.name.split(".")[:-1]
        for s in m.toplevel:
            if isinstance(s, ast.Import):
                for a in s.names:
                    if a.asname:
                        m.imports.setdefault(a.asname, a.name)
                    else:
                        m.imports.setdefault(a.name.split(".")[0], a.name.split(".")[0])
            elif isinstance(s, ast.ImportFrom):
                base = s.module or ""
                if s.level:
                    up = pkg_parts[: len(pkg_parts) - (s.level - 1)]
                    base = ".".join(up + ([s.module] if s.module else []))
                for a in s.names:
                    if a.name == "*":
                        m.star_imports.append(base)
                    else:
                        # first binding wins for try/except fallbacks (orjson before json)
                        m.imports.setdefault(a.asname or a.name, f"{base}.{a.name}")
            elif isinstance(s, ast.FunctionDef):
                m.functions[s.name] = FuncInfo(s.name, f"{m.name}.{s.name}", m, s)
            elif isinstance(s, ast.ClassDef):
                ci = ClassInfo(s.name, f"{m.name}.{s.name}", m, s)
                for b in s.body:
                    if isinstance(b, ast.FunctionDef):
                        ci.methods[b.name] = FuncInfo(b.name, f"{ci.qualname}.{b.name}", m, b, cls=ci)
                    elif isinstance(b, ast.Assign) and len(b.targets) == 1 and isinstance(b.targets[0], ast.Name):
                        ci.assigns[b.targets[0].id] = b.value
                    elif isinstance(b, ast.AnnAssign) and isinstance(b.target, ast.Name) and b.value is not None:
                        ci.assigns[b.target.id] = b.value
                m.classes[s.name] = ci
            elif isinstance(s, ast.Assign):
                for tg in s.targets:
                    if isinstance(tg, ast.Name):
                        m.assigns[tg.id] = s.value
                        m.assign_nodes[tg.id] = s
                        if tg.id == "__all__":
                            try:
                                m.all_names = list(ast.literal_eval(s.value))
                            except Exception:
                                pass
            elif isinstance(s, ast.AnnAssign) and isinstance(s.target, ast.Name) and s.value is not None:
                m.assigns[s.target.id] = s.value
                m.assign_nodes[s.target.id] = s

    def _star_fix(self):
        for _ in range(3):
            for m in self.modules.values():
                for base in m.star_imports:
                    src = self.modules.get(base)
                    if not src:
                        continue
                    names = src.all_names
                    if names is None:
                        names = [n for n in list(src.functions) + list(src.classes) + list(src.assigns) + list(src.imports) if not n.startswith("_")]
                    for n in names:
                        m.imports.setdefault(n, f"{base}.{n}")

    # ------------------------------------------------------------------ resolution
    def module_defines(self, mod: Module, name: str) -> bool:
        return name in mod.functions or name in mod.classes or name in mod.assigns

    def resolve_name(self, mod: Module, name: str) -> str:
        """Resolve a bare module-level name used in `mod` to a canonical dotted name."""
        if self.module_defines(mod, name):
            return self.canonical(f"{mod.name}.{name}")
        if name in mod.imports:
            return self.canonical(mod.imports[name])
        if hasattr(builtins, name):
            return f"builtins.{name}"
        return f"{mod.name}.{name}"

    def canonical(self, dotted: str, _depth: int = 0) -> str:
        """Follow re-exports and plain aliases inside the package to the defining name."""
        if _depth > 12:
            return dotted
        parts = dotted.split(".")
        # longest module prefix
        for i in range(len(parts), 0, -1):
            mn = ".".join(parts[:i])
            mod = self.modules.get(mn)
            if mod is None:
                continue
            rest = parts[i:]
            if not rest:
                return dotted
            head, tail = rest[0], rest[1:]
            if head in mod.functions or head in mod.classes:
                return getattr(self, "_alias", {}).get(dotted, dotted)
            if head in mod.assigns:
                v = mod.assigns[head]
                # a memoised wrapper alias that no rule anchors on computes what its target computes: calls of it read as
                # calls of the target (that it is memoised stays visible through memoised_functions())
                if not tail and dotted not in ANCHORED_MEMO_WRAPPERS and "MEMO_DECORATORS" in globals():
                    hit = self.memo_wrap_target(mod, v)
                    if hit and hit[1].startswith("typelib."):
                        return self.canonical(hit[1], _depth + 1)
                # plain alias X = a.b.c  (no call, no subscript)
                chain = _attr_chain(v)
                if chain is not None:
                    target = self.resolve_name(mod, chain[0])
                    full = ".".join([target] + chain[1:] + tail)
                    if full != dotted:
                        return self.canonical(full, _depth + 1)
                return dotted
            if head in mod.imports:
                return self.canonical(".".join([mod.imports[head]] + tail), _depth + 1)
            # submodule?
            return dotted
        return dotted

    def resolve_expr_name(self, mod: Module, e: ast.expr) -> str | None:
        chain = _attr_chain(e)
        if chain is None:
            return None
        base = self.resolve_name(mod, chain[0])
        return self.canonical(".".join([base] + chain[1:]))

    def _resolve_base(self, mod: Module, e: ast.expr) -> str | None:
        if isinstance(e, ast.Subscript):
            e = e.value
        return self.resolve_expr_name(mod, e)

    # ------------------------------------------------------------------ classes
    def class_of(self, dotted: str) -> tuple[ClassInfo, str | None] | None:
        """Resolve a dotted name to a package class, following `X = Cls[param]` aliases.

        Returns (ClassInfo, alias_parameter_source or None)."""
        seen = 0
        param = None
        while seen < 10:
            seen += 1
            if dotted in self.classes:
                return self.classes[dotted], param
            mn, _, nm = dotted.rpartition(".")
            mod = self.modules.get(mn)
            if mod is None or nm not in mod.assigns:
                return None
            v = mod.assigns[nm]
            if isinstance(v, ast.Subscript):
                if param is None:
                    param = self._alias_param(mod, v.slice)
                v = v.value
            nxt = self.resolve_expr_name(mod, v)
            if nxt is None or nxt == dotted:
                return None
            dotted = nxt
        return None

    def _alias_param(self, mod: Module, e: ast.expr) -> str:
        """`CastMarshaller[int]` -> 'builtins.int'; TypeVar alias -> its bound when declared."""
        name = self.resolve_expr_name(mod, e)
        if name is None:
            return ast.unparse(e)
        mn, _, nm = name.rpartition(".")
        m2 = self.modules.get(mn)
        if m2 and nm in m2.assigns:
            v = m2.assigns[nm]
            if isinstance(v, ast.Call) and (self.resolve_expr_name(m2, v.func) or "").endswith("TypeVar"):
                for kw in v.keywords:
                    if kw.arg == "bound":
                        return "bound:" + (self.resolve_expr_name(m2, kw.value) or ast.unparse(kw.value))
                if len(v.args) > 1:
                    return "constraints:" + ",".join(self.resolve_expr_name(m2, a) or ast.unparse(a) for a in v.args[1:])
                return "typevar"
        return name

    def mro(self, cls: ClassInfo) -> list[ClassInfo]:
        """Linearisation inside the package (depth-first, left-to-right, dedup keeping last — enough
        for the single-inheritance-plus-Generic shapes the repo uses)."""
        out: list[ClassInfo] = []

        def visit(c: ClassInfo):
            if c in out:
                return
            out.append(c)
            for b in c.bases:
                r = self.class_of(b)
                if r:
                    visit(r[0])

        visit(cls)
        return out

    def external_bases(self, cls: ClassInfo) -> list[str]:
        out = []
        for c in self.mro(cls):
            for b in c.bases:
                if not self.class_of(b):
                    out.append(b)
        return out

    def lookup_method(self, cls: ClassInfo, name: str) -> FuncInfo | None:
        for c in self.mro(cls):
            if name in c.methods:
                return c.methods[name]
        return None

    def subclasses_of(self, base_qual: str) -> list[ClassInfo]:
        out = []
        for c in self.classes.values():
            if c.qualname != base_qual and any(x.qualname == base_qual for x in self.mro(c)):
                out.append(c)
        return out

    def slots(self, cls: ClassInfo) -> set[str]:
        s: set[str] = set()
        for c in self.mro(cls):
            v = c.assigns.get("__slots__")
            if v is not None:
                try:
                    val = ast.literal_eval(v)
                    s |= {val} if isinstance(val, str) else set(val)
                except Exception:
                    pass
        return s

    # ------------------------------------------------------------------ misc
    def module(self, name: str) -> Module:
        m = self.modules.get(name)
        if m is None:
            raise AnalysisError(f"anchor module {name} not found")
        return m

    def function(self, qual: str) -> FuncInfo:
        f = self.functions.get(qual)
        if f is None:
            raise AnalysisError(f"anchor function {qual} not found")
        return f

    def cls(self, qual: str) -> ClassInfo:
        c = self.classes.get(qual)
        if c is None:
            raise AnalysisError(f"anchor class {qual} not found")
        return c

    def digests(self) -> dict[str, str]:
        return {m.relpath: m.digest for m in self.modules.values()}

    def is_memoised(self, f: FuncInfo) -> str | None:
        for d in f.decorators:
            if d in MEMO_DECORATORS or self._memo_wrapper(d):
                return d
        return None

    def _memo_wrapper(self, name: str | None) -> bool:
        """A package-level `def cache(func): return lru_cache(maxsize=None)(func)` (or `return functools.cache(func)`)
        is the stdlib memoiser under another name."""
        if not name or not name.startswith("typelib."):
            return False
        mn, _, fn = name.rpartition(".")
        mod = self.modules.get(mn)
        if mod is None:
            return False
        for n in ast.walk(mod.tree):
            # `cache = lru_cache(maxsize=None)` / `cache = functools.cache`: the stdlib memoiser bound to a package name
            if isinstance(n, ast.Assign) and len(n.targets) == 1 and isinstance(n.targets[0], ast.Name) and n.targets[0].id == fn:
                v = n.value
                if isinstance(v, ast.Call) and self.resolve_expr_name(mod, v.func) == "functools.lru_cache" and not v.args:
                    return True
                if isinstance(v, (ast.Name, ast.Attribute)) and self.resolve_expr_name(mod, v) in MEMO_DECORATORS:
                    return True
            if isinstance(n, ast.FunctionDef) and n.name == fn and len(n.args.posonlyargs + n.args.args) == 1 and not n.decorator_list:
                body = [st for st in n.body if not (isinstance(st, ast.Expr) and isinstance(st.value, ast.Constant))]
                if len(body) == 1 and isinstance(body[0], ast.Return) and isinstance(body[0].value, ast.Call):
                    c = body[0].value
                    arg_ok = len(c.args) == 1 and isinstance(c.args[0], ast.Name) and c.args[0].id == (n.args.posonlyargs + n.args.args)[0].arg and not c.keywords
                    inner = c.func.func if isinstance(c.func, ast.Call) else c.func
                    if arg_ok and self.resolve_expr_name(mod, inner) in MEMO_DECORATORS:
                        return True
        return False

    def memo_bound(self, mod: "Module", e: ast.expr, _depth: int = 0):
        """How many entries the memoiser denoted by expression `e` (a decorator, or the callee of `name = memo(func)`) keeps:
        None = unbounded, an int, or "unknown" (not a memoiser this analysis can read)."""
        if _depth > 4:
            return "unknown"
        if isinstance(e, ast.Call):
            inner = self.resolve_expr_name(mod, e.func)
            if inner == "functools.lru_cache":
                size: ast.expr | None = e.args[0] if e.args else next((k.value for k in e.keywords if k.arg == "maxsize"), None)
                if size is None:
                    return 128 if not (e.args and isinstance(e.args[0], (ast.Name, ast.Attribute, ast.Lambda))) else "unknown"
                if isinstance(size, ast.Constant) and (size.value is None or isinstance(size.value, int)):
                    return size.value
                if isinstance(size, ast.Name) and isinstance(mod.assigns.get(size.id), ast.Constant):
                    v = mod.assigns[size.id].value
                    return v if v is None or isinstance(v, int) else "unknown"
                return "unknown"
            if inner and inner.startswith("typelib."):
                # a package-level factory called with arguments: compat.lru_cache(maxsize=...) is functools' under a package name
                return "unknown"
            return "unknown"
        name = self.resolve_expr_name(mod, e)
        if name == "functools.cache":
            return None
        if name == "functools.lru_cache":
            return 128  # applied bare: the default size
        if name and name.startswith("typelib."):
            mn, _, fn = name.rpartition(".")
            m2 = self.modules.get(mn)
            if m2 is None:
                return "unknown"
            for n in ast.walk(m2.tree):
                if isinstance(n, ast.Assign) and len(n.targets) == 1 and isinstance(n.targets[0], ast.Name) and n.targets[0].id == fn:
                    return self.memo_bound(m2, n.value, _depth + 1)
                if isinstance(n, ast.FunctionDef) and n.name == fn and not n.decorator_list:
                    body = [st for st in n.body if not (isinstance(st, ast.Expr) and isinstance(st.value, ast.Constant))]
                    if len(body) == 1 and isinstance(body[0], ast.Return) and isinstance(body[0].value, ast.Call):
                        c = body[0].value
                        return self.memo_bound(m2, c.func, _depth + 1)
        return "unknown"

    def safe_subclass_helpers(self) -> set[str]:
        """Package functions that compute `issubclass(a, b)` of their two parameters and answer False when that raises
        TypeError (try/except or contextlib.suppress), whatever they are called: the non-raising subclass test."""
        cached = getattr(self, "_safe_sub", None)
        if cached is not None:
            return cached
        self._safe_sub = set()  # re-entrancy: evaluating a candidate's paths asks this question again
        from . import paths as P
        from . import terms as T

        out: set[str] = set()
        for q, f in self.functions.items():
            n = f.node
            if not isinstance(n, ast.FunctionDef) or n.decorator_list or f.cls is not None or len(f.params) != 2:
                continue
            if not any(isinstance(x, ast.Call) and self.resolve_expr_name(f.module, x.func) == "builtins.issubclass" for x in ast.walk(n)):
                continue
            try:
                ps = P.paths_of(self, f)
            except AnalysisError:
                continue
            want = ("call", ("ref", "builtins.issubclass"), (("param", f.params[0]), ("param", f.params[1])), ())
            rets = [p for p in ps if p.exit[0] == "return"]
            if len(rets) != len(ps) or not rets:
                continue
            direct = [p for p in rets if p.exit[1] == want]
            fallback = [p for p in rets if p.exit[1] == ("const", False)]
            if not direct or not fallback or len(direct) + len(fallback) != len(rets):
                continue
            if all(any("builtins.TypeError" in names for names in P.abandoned(p)) for p in fallback):
                out.add(q)
        P._cache.clear()  # paths computed before the helper set was known are discarded
        getattr(P, "_scache", {}).clear()
        self._safe_sub = out
        return out

    def memoised_functions(self) -> dict[str, str]:
        """qualified function name -> memo decorator, including `name = compat.cache(func)` wrappers."""
        out: dict[str, str] = {}
        for f in self.functions.values():
            d = self.is_memoised(f)
            if d:
                out[f.qualname] = d
        for m in self.modules.values():
            for nm, v in m.assigns.items():
                hit = self.memo_wrap_target(m, v)
                if hit:
                    out[f"{m.name}.{nm}"] = f"{hit[0]}({hit[1]})"
        return out

    def memo_wrap_target(self, m: "Module", v: ast.expr) -> tuple[str, str] | None:
        """`memo(func)` / `memo(maxsize=…)(func)` with `memo` the stdlib memoiser (possibly under a package name):
        (memoiser, resolved target) — the value of a `name = …` wrapper alias."""
        if not (isinstance(v, ast.Call) and len(v.args) == 1 and not v.keywords):
            return None
        fn = v.func
        if isinstance(fn, ast.Call) and not fn.args:
            fn = fn.func  # lru_cache(maxsize=4096)(func)
        name = self.resolve_expr_name(m, fn)
        if not (name in MEMO_DECORATORS or self._memo_wrapper(name)):
            return None
        target = self.resolve_expr_name(m, v.args[0])
        return (name, target) if target else None


MEMO_DECORATORS = {"functools.cache", "functools.lru_cache"}

# the wrapper aliases of the tree that rules name themselves (floors, triage tables); any other is transparent to the evaluator
ANCHORED_MEMO_WRAPPERS = {
    "typelib.py.inspection.cached_signature",
    "typelib.py.inspection.cached_type_hints",
    "typelib.py.inspection.cached_simple_attributes",
    "typelib.py.inspection.cached_issubclass",
}

# where two private callees have the same shape: the one meant is the one that itself calls ...
ROLE_MUST_CALL = {"typelib.py.inspection._hints_from_signature": "typelib.py.inspection.signature"}

# private helpers the rules name -> (the public functions that call them, number of named parameters or None for *args)
ROLE_ANCHORS = {
    "typelib.binding._get_binding": (["typelib.binding.bind", "typelib.binding.wrap"], 1),
    "typelib.graph._level": (["typelib.graph.get_type_graph"], 1),
    "typelib.serdes._make_fields_iterator": (["typelib.serdes.get_items_iter"], 1),
    "typelib.serdes._is_iterable_of_pairs": (["typelib.serdes.iteritems"], 1),
    "typelib.py.inspection._hints_from_signature": (["typelib.py.inspection.get_type_hints"], 1),
    "typelib.py.refs._resolve_module_name": (["typelib.py.refs.forwardref"], 2),
    "typelib.py.inspection._normalize_typevars": (["typelib.py.inspection.args"], None),
}


def _attr_chain(e: ast.expr) -> list[str] | None:
    parts: list[str] = []
    while isinstance(e, ast.Attribute):
        parts.append(e.attr)
        e = e.value
    if isinstance(e, ast.Name):
        parts.append(e.id)
        return parts[::-1]
    return None
