"""Both-ways test of the checkers themselves.

Every variant is a single edit of a scratch copy of /repo/src (made under a fresh temporary directory outside /repo
and /verif, removed afterwards).  `break` variants must make the named property's check exit 1 and name the expected
obligation; `neutral` variants (behaviour-preserving refactors) must leave the check at exit 0.  The edits are applied
textually to build the variant — the *checker* still only ever sees parsed source.
"""

from __future__ import annotations

import concurrent.futures as cf
import json
import os
import pathlib
import shutil
import subprocess
import sys
import tempfile
import time

from . import model

HERE = pathlib.Path(__file__).resolve().parent
VARIANTS = HERE / "variants.json"


def load_variants():
    return json.loads(VARIANTS.read_text())


def run_variant(v: dict) -> dict:
    root = pathlib.Path(tempfile.mkdtemp(prefix="tlverif-variant-"))
    try:
        src = model.repo_root() / "src"
        shutil.copytree(src, root / "src")
        target = root / v["file"]
        text = target.read_text()
        if v["old"] not in text:
            return {"id": v["id"], "ok": False, "why": "anchor text of the variant not found in the current tree (variant is stale)", "stale": True}
        if text.count(v["old"]) != 1 and not v.get("all"):
            return {"id": v["id"], "ok": False, "why": f"anchor text occurs {text.count(v['old'])} times", "stale": True}
        target.write_text(text.replace(v["old"], v["new"]))
        try:
            compile(target.read_text(), str(target), "exec")
        except SyntaxError as e:
            return {"id": v["id"], "ok": False, "why": f"variant does not compile: {e}"}
        env = dict(os.environ, TLVERIF_REPO=str(root), TLVERIF_NO_EVIDENCE="1")
        out = []
        worst = 0
        for prop in v["props"]:
            r = subprocess.run([sys.executable, "-m", "tlverif", prop, "--tier", "quick"], cwd=HERE.parent, env=env, capture_output=True, text=True)
            out.append((prop, r.returncode, r.stdout + r.stderr))
        if v["kind"] == "break":
            hit = False
            for prop, code, text in out:
                if code == 1 and (not v.get("expect") or any(x in text for x in ([v["expect"]] if isinstance(v["expect"], str) else v["expect"]))):
                    hit = True
            if hit:
                return {"id": v["id"], "ok": True}
            return {"id": v["id"], "ok": False, "why": "broken variant not reported as expected: " + "; ".join(f"{p} exit={c}" for p, c, _ in out), "out": out[0][2][-1500:]}
        bad = [(p, c, t) for p, c, t in out if c != 0]
        if bad:
            return {"id": v["id"], "ok": False, "why": "behaviour-neutral variant raised an alarm: " + "; ".join(f"{p} exit={c}" for p, c, _ in bad), "out": bad[0][2][-1500:]}
        return {"id": v["id"], "ok": True}
    finally:
        shutil.rmtree(root, ignore_errors=True)


def patch_variants(only: str | None):
    """Whole-patch variants kept under /verif/seeded (independently seeded defects, must be reported by the checks recorded
    as catching them) and /verif/neutral (independently written behaviour-preserving refactorings, must stay silent)."""
    base = HERE.parent
    out = []
    for d in sorted((base / "seeded").glob("*/meta.json")):
        m = json.loads(d.read_text())
        if m.get("stale"):
            continue  # written against code that a later repair replaced; kept as history (see its meta.json)
        props = [p for p in m.get("caught_by", []) if only is None or p == only]
        if props:
            out.append({"id": "seed:" + m["seed_id"], "kind": "break", "patch": str(d.parent / "patch.diff"), "props": props if only else props[:1]})
    for d in sorted((base / "neutral").glob("*/meta.json")):
        m = json.loads(d.read_text())
        if m.get("quarantined"):
            continue
        if only is None:
            out.append({"id": "neutral:" + m["neutral_id"], "kind": "neutral", "patch": str(d.parent / "patch.diff"), "props": ["all"]})
        elif m["property"] == only:
            out.append({"id": "neutral:" + m["neutral_id"], "kind": "neutral", "patch": str(d.parent / "patch.diff"), "props": [only]})
    return out


def run_patch_variant(v: dict) -> dict:
    root = pathlib.Path(tempfile.mkdtemp(prefix="tlverif-patch-"))
    try:
        shutil.copytree(model.repo_root() / "src", root / "src")
        r = subprocess.run(["git", "apply", "-p1", v["patch"]], cwd=root, capture_output=True, text=True)
        if r.returncode != 0:
            return {"id": v["id"], "ok": False, "why": "patch does not apply to the current tree (stale)", "stale": True}
        env = dict(os.environ, TLVERIF_REPO=str(root), TLVERIF_NO_EVIDENCE="1")
        out = []
        for prop in v["props"]:
            r = subprocess.run([sys.executable, "-m", "tlverif", prop, "--tier", "quick"], cwd=HERE.parent, env=env, capture_output=True, text=True)
            out.append((prop, r.returncode, r.stdout + r.stderr))
            if v["kind"] == "neutral" and prop == "all" and r.returncode == 0:
                # the rules of the thorough tier (extended catalogue) must stay silent too; `all` runs no nested self-test
                r = subprocess.run([sys.executable, "-m", "tlverif", prop, "--tier", "thorough"], cwd=HERE.parent, env=env, capture_output=True, text=True)
                out.append((prop + "/thorough", r.returncode, r.stdout + r.stderr))
        if v["kind"] == "break":
            if any(c == 1 for _, c, _ in out):
                return {"id": v["id"], "ok": True}
            return {"id": v["id"], "ok": False, "why": "seeded defect no longer reported: " + "; ".join(f"{p} exit={c}" for p, c, _ in out), "out": out[0][2][-800:]}
        bad = [(p, c, t) for p, c, t in out if c != 0]
        if bad:
            lines = [ln for ln in bad[0][2].splitlines() if ln.startswith(("VIOLATION", "UNDECIDED", "ANALYSIS-ERROR")) or " rule " in ln]
            return {"id": v["id"], "ok": False, "why": "behaviour-preserving refactoring raised an alarm: " + "; ".join(f"{p} exit={c}" for p, c, _ in bad), "out": "\n".join(lines[:10])}
        return {"id": v["id"], "ok": True}
    finally:
        shutil.rmtree(root, ignore_errors=True)


LAST: dict = {}


# ---------------------------------------------------------------------------------------------------------------------
# whole-tree behaviour-neutral transformations: every check must stay silent on the transformed copy


def _unparse_all(root: pathlib.Path):
    """Re-emit every module from its AST: drops comments, blank lines, parentheses, quoting and line structure."""
    import ast

    for f in (root / "src" / "typelib").rglob("*.py"):
        f.write_text(ast.unparse(ast.parse(f.read_text())) + "\n")


def _rename_locals(root: pathlib.Path):
    """Alpha-rename every local variable of every function (not parameters, not names declared global/nonlocal,
    not names captured by nested functions)."""
    import ast

    class Rn(ast.NodeTransformer):
        def visit_FunctionDef(self, node):
            for i, ch in enumerate(node.body):
                node.body[i] = self.visit(ch)
            params = {a.arg for a in node.args.posonlyargs + node.args.args + node.args.kwonlyargs}
            if node.args.vararg:
                params.add(node.args.vararg.arg)
            if node.args.kwarg:
                params.add(node.args.kwarg.arg)
            stores, banned = set(), set()
            nested_reads = set()
            for n in ast.walk(node):
                if isinstance(n, (ast.Global, ast.Nonlocal)):
                    banned |= set(n.names)
                if isinstance(n, (ast.FunctionDef, ast.Lambda, ast.ClassDef)) and n is not node:
                    for m in ast.walk(n):
                        if isinstance(m, ast.Name):
                            nested_reads.add(m.id)
                    if hasattr(n, "name"):
                        banned.add(n.name)
                if isinstance(n, (ast.ListComp, ast.SetComp, ast.DictComp, ast.GeneratorExp)):
                    pass
            def own(n):
                return True
            for n in ast.walk(node):
                if isinstance(n, ast.Name) and isinstance(n.ctx, ast.Store):
                    stores.add(n.id)
                if isinstance(n, ast.ExceptHandler) and n.name:
                    banned.add(n.name)
                if isinstance(n, (ast.Import, ast.ImportFrom)):
                    for a in n.names:
                        banned.add((a.asname or a.name).split(".")[0])
            targets = {x for x in stores if x not in params and x not in banned and x not in nested_reads and not x.startswith("__")}
            if not targets:
                return node

            class Sub(ast.NodeTransformer):
                def visit_Name(self, n):
                    if n.id in targets:
                        return ast.copy_location(ast.Name(id=n.id + "_rn", ctx=n.ctx), n)
                    return n

                def visit_FunctionDef(self, n):
                    return n if n is not node else self.generic_visit(n)

                visit_Lambda = visit_ClassDef = lambda self, n: n

            return Sub().visit(node)

    for f in (root / "src" / "typelib").rglob("*.py"):
        tree = ast.parse(f.read_text())
        tree = Rn().visit(tree)
        ast.fix_missing_locations(tree)
        f.write_text(ast.unparse(tree) + "\n")


def _suppress_to_try(root: pathlib.Path):
    """Every `with contextlib.suppress(E…): body` becomes `try: body / except (E…): pass`."""
    import ast

    class Tr(ast.NodeTransformer):
        def visit_With(self, node):
            self.generic_visit(node)
            if len(node.items)==1 and node.items[0].optional_vars is None:
                c=node.items[0].context_expr
                if isinstance(c, ast.Call) and ast.unparse(c.func) in ('contextlib.suppress','suppress') and not c.keywords:
                    typ = c.args[0] if len(c.args)==1 else ast.Tuple(elts=c.args, ctx=ast.Load())
                    return ast.Try(body=node.body, handlers=[ast.ExceptHandler(type=typ, name=None, body=[ast.Pass()])], orelse=[], finalbody=[])
            return node
    for f in (root/'src'/'typelib').rglob('*.py'):
        t=Tr().visit(ast.parse(f.read_text())); ast.fix_missing_locations(t); f.write_text(ast.unparse(t)+'\n')
def _hoist_return_args(root: pathlib.Path):
    """`return f(a, g(x))` becomes `_h = g(x); return f(a, _h)` where evaluation order is kept."""
    import ast

    class Tr(ast.NodeTransformer):
        def __init__(self): self.n=0
        def _block(self, body):
            out=[]
            for st in body:
                if isinstance(st, ast.Return) and isinstance(st.value, ast.Call):
                    call=st.value
                    new=[]
                    for i,a in enumerate(call.args):
                        if isinstance(a, ast.Call) and not any(isinstance(x,(ast.Starred,)) for x in call.args) :
                            self.n+=1
                            nm=f"_h{self.n}"
                            # only hoist when all earlier args are simple names/constants/attrs (evaluation order)
                            if all(isinstance(b,(ast.Name,ast.Constant,ast.Attribute)) for b in call.args[:i]) and isinstance(call.func,(ast.Name,ast.Attribute)):
                                out.append(ast.Assign(targets=[ast.Name(id=nm,ctx=ast.Store())], value=a))
                                call.args[i]=ast.Name(id=nm,ctx=ast.Load())
                                break
                out.append(st)
            return out
        def generic_visit(self, node):
            super().generic_visit(node)
            for fld in ('body','orelse','finalbody'):
                b=getattr(node,fld,None)
                if isinstance(b,list) and b and isinstance(b[0],ast.stmt):
                    setattr(node,fld,self._block(b))
            return node
    for f in (root/'src'/'typelib').rglob('*.py'):
        t=Tr().visit(ast.parse(f.read_text())); ast.fix_missing_locations(t); f.write_text(ast.unparse(t)+'\n')
def _ifexp_return_to_if(root: pathlib.Path):
    """`return a if c else b` becomes `if c: return a` / `return b`."""
    import ast

    class Tr(ast.NodeTransformer):
        def _block(self, body):
            out=[]
            for st in body:
                if isinstance(st, ast.Return) and isinstance(st.value, ast.IfExp):
                    v=st.value
                    out.append(ast.If(test=v.test, body=[ast.Return(value=v.body)], orelse=[]))
                    out.append(ast.Return(value=v.orelse))
                else: out.append(st)
            return out
        def generic_visit(self, node):
            super().generic_visit(node)
            for fld in ('body','orelse','finalbody'):
                b=getattr(node,fld,None)
                if isinstance(b,list) and b and isinstance(b[0],ast.stmt):
                    setattr(node,fld,self._block(b))
            return node
    for f in (root/'src'/'typelib').rglob('*.py'):
        t=Tr().visit(ast.parse(f.read_text())); ast.fix_missing_locations(t); f.write_text(ast.unparse(t)+'\n')
def _isinstance_split(root: pathlib.Path):
    """`isinstance(x, (A, B))` becomes `isinstance(x, A) or isinstance(x, B)` (same for issubclass)."""
    import ast

    class Tr(ast.NodeTransformer):
        def visit_Call(self, node):
            self.generic_visit(node)
            if isinstance(node.func, ast.Name) and node.func.id in('isinstance','issubclass') and len(node.args)==2 and isinstance(node.args[1], ast.Tuple) and isinstance(node.args[0],(ast.Name,ast.Attribute)) and 2<=len(node.args[1].elts)<=3:
                return ast.BoolOp(op=ast.Or(), values=[ast.Call(func=node.func,args=[node.args[0],e],keywords=[]) for e in node.args[1].elts])
            return node
    for f in (root/'src'/'typelib').rglob('*.py'):
        t=Tr().visit(ast.parse(f.read_text())); ast.fix_missing_locations(t); f.write_text(ast.unparse(t)+'\n')

def _rename_private_helpers(root):
    """Rename every private helper the rules know by name (model.ROLE_ANCHORS), definition and all references."""
    import re as _re

    names = sorted({q.rpartition(".")[2] for q in model.ROLE_ANCHORS})
    pat = _re.compile(r"\b(" + "|".join(_re.escape(n) for n in names) + r")\b")
    for f in (root / "src" / "typelib").rglob("*.py"):
        t0 = f.read_text()
        t1 = pat.sub(lambda m: m.group(1) + "_renamed", t0)
        if t1 != t0:
            f.write_text(t1)


GLOBAL_TRANSFORMS = {
    "rename-private-helpers": _rename_private_helpers,
    "unparse-every-module": _unparse_all,
    "alpha-rename-every-local": _rename_locals,
    "suppress-to-try-except": _suppress_to_try,
    "hoist-nested-call-out-of-return": _hoist_return_args,
    "conditional-return-to-if": _ifexp_return_to_if,
    "split-class-tuple-tests": _isinstance_split,
}


def run_global(name: str) -> dict:
    root = pathlib.Path(tempfile.mkdtemp(prefix="tlverif-global-"))
    try:
        shutil.copytree(model.repo_root() / "src", root / "src")
        GLOBAL_TRANSFORMS[name](root)
        for f in (root / "src" / "typelib").rglob("*.py"):
            compile(f.read_text(), str(f), "exec")
        env = dict(os.environ, TLVERIF_REPO=str(root), TLVERIF_NO_EVIDENCE="1")
        r = subprocess.run([sys.executable, "-m", "tlverif", "all", "--tier", "quick"], cwd=HERE.parent, env=env, capture_output=True, text=True)
        if r.returncode == 0:
            r2 = subprocess.run([sys.executable, "-m", "tlverif", "all", "--tier", "thorough"], cwd=HERE.parent, env=env, capture_output=True, text=True)
            r.stdout += r2.stdout
            r.stderr += r2.stderr
            r.returncode = r2.returncode
        bad = [ln for ln in (r.stdout + r.stderr).splitlines() if ln.startswith(("VIOLATION", "UNDECIDED", "ANALYSIS-ERROR"))]
        if r.returncode != 0 or bad:
            return {"id": "global:" + name, "ok": False, "why": f"whole-tree neutral transformation raised an alarm (exit {r.returncode})", "out": "\n".join(bad[:12])}
        return {"id": "global:" + name, "ok": True}
    finally:
        shutil.rmtree(root, ignore_errors=True)


def run_determinism() -> dict:
    """All checks must give the same verdicts and the same obligation counts whatever the hash seed (set iteration order)."""
    import re

    outs = []
    for seed in ("1", "2", "3"):
        env = dict(os.environ, TLVERIF_NO_EVIDENCE="1", PYTHONHASHSEED=seed)
        r = subprocess.run([sys.executable, "-W", "ignore", "-m", "tlverif", "all", "--tier", "quick"], cwd=HERE.parent, env=env, capture_output=True, text=True)
        lines = [re.sub(r" wall=[0-9.]+s", "", ln) for ln in (r.stdout + r.stderr).splitlines() if "tier=" in ln or ln.startswith(("VIOLATION", "UNDECIDED", "ANALYSIS-ERROR", "KNOWN-FINDING"))]
        outs.append("\n".join(sorted(lines)))
    if len(set(outs)) != 1:
        import difflib

        diff = "\n".join(list(difflib.unified_diff(outs[0].splitlines(), outs[1].splitlines(), lineterm=""))[:20] or list(difflib.unified_diff(outs[0].splitlines(), outs[2].splitlines(), lineterm=""))[:20])
        return {"id": "global:hash-seed-determinism", "ok": False, "why": "the checks' summaries differ between PYTHONHASHSEED values", "out": diff}
    return {"id": "global:hash-seed-determinism", "ok": True}


def main(jobs: int = 16, only: str | None = None, strict: bool = True) -> int:
    """strict=False (thorough tier of a check): variants whose anchor text is gone from the tree under analysis are
    skipped and reported, not failed — the tree may have been edited since the variant library was written."""
    t0 = time.time()
    vs = load_variants()
    if only:
        vs = [v for v in vs if only in v["props"]]
    pvs = patch_variants(only)
    if not vs and not pvs:
        print(f"[selftest] no variants for {only}")
        return 0
    res = []
    with cf.ThreadPoolExecutor(max_workers=jobs) as ex:
        futs = [ex.submit(run_global, g) for g in GLOBAL_TRANSFORMS] if only is None else []
        if only is None:
            futs.append(ex.submit(run_determinism))
        futs += [ex.submit(run_patch_variant, v) for v in pvs]
        for r in ex.map(run_variant, vs):
            res.append(r)
        for fu in futs:
            res.append(fu.result())
    stale = [r for r in res if r.get("stale")]
    bad = [r for r in res if not r["ok"] and (strict or not r.get("stale"))]
    for r in stale:
        if not strict:
            print(f"SELFTEST-SKIP {r['id']}: {r['why']}")
    nb = sum(1 for v in vs if v["kind"] == "break")
    npb = sum(1 for v in pvs if v["kind"] == "break")
    print(f"[selftest{' ' + only if only else ''}] variants={len(vs)} (break={nb}, neutral={len(vs) - nb}) seeded-patches={npb} neutral-patches={len(pvs) - npb} failed={len(bad)} wall={time.time() - t0:.1f}s")
    LAST.clear()
    LAST.update({"variants": len(vs), "break": nb, "neutral": len(vs) - nb, "seeded_patches": npb, "neutral_patches": len(pvs) - npb, "failed": len(bad), "stale_skipped": 0 if strict else len(stale), "ids": [v["id"] for v in vs] + [v["id"] for v in pvs], "wall_s": round(time.time() - t0, 2)})
    for r in bad:
        print(f"SELFTEST-FAIL {r['id']}: {r['why']}")
        if r.get("out"):
            print("    " + r["out"].replace("\n", "\n    ")[-1200:])
    return 2 if bad else 0


if __name__ == "__main__":
    sys.exit(main())
