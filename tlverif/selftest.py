"""Both-ways test of the checkers themselves.

Every variant is a single edit of a scratch copy of /repo/src (made under a fresh temporary directory outside /repo
and /verif, removed afterwards).  `break` variants must make the named property's check exit 1 and name the expected
obligation; `neutral` variants (behaviour-preserving refactors) must leave the check at exit 0.  The edits are applied
textually to build the variant — the *checker* still only ever sees parsed source.
"""

from __future__ import annotations

import concurrent.futures as cf
import json
import os
import pathlib
import shutil
import subprocess
import sys
import tempfile
import time

from . import model

HERE = pathlib.Path(__file__).resolve().parent
VARIANTS = HERE / "variants.json"


def load_variants():
    return json.loads(VARIANTS.read_text())


def run_variant(v: dict) -> dict:
    root = pathlib.Path(tempfile.mkdtemp(prefix="tlverif-variant-"))
    try:
        src = model.repo_root() / "src"
        shutil.copytree(src, root / "src")
        target = root / v["file"]
        text = target.read_text()
        if v["old"] not in text:
            return {"id": v["id"], "ok": False, "why": "anchor text of the variant not found in the current tree (variant is stale)", "stale": True}
        if text.count(v["old"]) != 1 and not v.get("all"):
            return {"id": v["id"], "ok": False, "why": f"anchor text occurs {text.count(v['old'])} times", "stale": True}
        target.write_text(text.replace(v["old"], v["new"]))
        try:
            compile(target.read_text(), str(target), "exec")
        except SyntaxError as e:
            return {"id": v["id"], "ok": False, "why": f"variant does not compile: {e}"}
        env = dict(os.environ, TLVERIF_REPO=str(root), TLVERIF_NO_EVIDENCE="1")
        out = []
        worst = 0
        for prop in v["props"]:
            r = subprocess.run([sys.executable, "-m", "tlverif", prop, "--tier", "quick"], cwd=HERE.parent, env=env, capture_output=True, text=True)
            out.append((prop, r.returncode, r.stdout + r.stderr))
        if v["kind"] == "break":
            hit = False
            for prop, code, text in out:
                if code == 1 and (not v.get("expect") or any(x in text for x in ([v["expect"]] if isinstance(v["expect"], str) else v["expect"]))):
                    hit = True
            if hit:
                return {"id": v["id"], "ok": True}
            return {"id": v["id"], "ok": False, "why": "broken variant not reported as expected: " + "; ".join(f"{p} exit={c}" for p, c, _ in out), "out": out[0][2][-1500:]}
        bad = [(p, c, t) for p, c, t in out if c != 0]
        if bad:
            return {"id": v["id"], "ok": False, "why": "behaviour-neutral variant raised an alarm: " + "; ".join(f"{p} exit={c}" for p, c, _ in bad), "out": bad[0][2][-1500:]}
        return {"id": v["id"], "ok": True}
    finally:
        shutil.rmtree(root, ignore_errors=True)


LAST: dict = {}


def main(jobs: int = 16, only: str | None = None, strict: bool = True) -> int:
    """strict=False (thorough tier of a check): variants whose anchor text is gone from the tree under analysis are
    skipped and reported, not failed — the tree may have been edited since the variant library was written."""
    t0 = time.time()
    vs = load_variants()
    if only:
        vs = [v for v in vs if only in v["props"]]
    if not vs:
        print(f"[selftest] no variants for {only}")
        return 0
    res = []
    with cf.ThreadPoolExecutor(max_workers=jobs) as ex:
        for r in ex.map(run_variant, vs):
            res.append(r)
    stale = [r for r in res if r.get("stale")]
    bad = [r for r in res if not r["ok"] and (strict or not r.get("stale"))]
    for r in stale:
        if not strict:
            print(f"SELFTEST-SKIP {r['id']}: {r['why']}")
    nb = sum(1 for v in vs if v["kind"] == "break")
    print(f"[selftest{' ' + only if only else ''}] variants={len(vs)} (break={nb}, neutral={len(vs) - nb}) failed={len(bad)} wall={time.time() - t0:.1f}s")
    LAST.clear()
    LAST.update({"variants": len(vs), "break": nb, "neutral": len(vs) - nb, "failed": len(bad), "stale_skipped": 0 if strict else len(stale), "ids": [v["id"] for v in vs], "wall_s": round(time.time() - t0, 2)})
    for r in bad:
        print(f"SELFTEST-FAIL {r['id']}: {r['why']}")
        if r.get("out"):
            print("    " + r["out"].replace("\n", "\n    ")[-1200:])
    return 2 if bad else 0


if __name__ == "__main__":
    sys.exit(main())
