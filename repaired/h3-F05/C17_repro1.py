"""required_keys()/signature() of a parameterised generic TypedDict read class attributes
from the alias, which does not forward dunder attributes -> no key is required."""
import typing as tp

import typelib
from typelib.py import inspection

T = tp.TypeVar("T")


class Page(tp.TypedDict, tp.Generic[T]):
    item: T
    note: tp.NotRequired[str]


class Patch(tp.TypedDict, tp.Generic[T], total=False):
    item: T
    id: tp.Required[int]


# oracle: the runtime's own bookkeeping on the class the alias resolves to
assert tp.get_origin(Page[int]).__required_keys__ == frozenset({"item"})
assert inspection.istypeddict(Page[int])  # the alias *is* recognised as a TypedDict
assert inspection.required_keys(Page) == frozenset({"item"})
assert inspection.required_keys(Patch) == frozenset({"id"})

failures = []
if inspection.required_keys(Page[int]) != frozenset({"item"}):
    failures.append(f"required_keys(Page[int]) = {set(inspection.required_keys(Page[int]))}")
if inspection.required_keys(Patch[int]) != frozenset({"id"}):
    failures.append(f"required_keys(Patch[int]) = {set(inspection.required_keys(Patch[int]))}")
# totality is lost the same way: the non-total class has `...` defaults, its alias has none
d_cls = inspection.signature(Patch).parameters["item"].default
d_alias = inspection.signature(Patch[int]).parameters["item"].default
if d_cls != d_alias:
    failures.append(f"signature default: class {d_cls!r} vs alias {d_alias!r}")
# end to end: the required key is not enforced for the alias
try:
    typelib.unmarshal(Page, {})
    failures.append("unmarshal(Page, {}) accepted")
except TypeError:
    pass
try:
    got = typelib.unmarshal(Page[int], {})
    failures.append(f"unmarshal(Page[int], {{}}) accepted -> {got!r}")
except TypeError:
    pass
assert not failures, failures
