"""C03 repro 1: a parameterised generic TypedDict is returned without its required keys.

Exits 1 (AssertionError) while the defect is present, 0 once it is fixed.
"""
import dataclasses
import typing

import typelib

T = typing.TypeVar("T")


class Page(typing.TypedDict, typing.Generic[T]):
    """A *total* TypedDict: both keys are required."""

    item: T
    items: list[T]


@dataclasses.dataclass
class Holder:
    page: Page[int]
    pages: list[Page[str]]


def outcome(t, value):
    try:
        return ("returned", typelib.unmarshal(t, value))
    except Exception as exc:  # raising is what the property allows
        return ("raised", exc)


# Control: the un-parameterised class enforces its required keys.
assert outcome(Page, {"item": 1})[0] == "raised"

problems = []
for t, value in [
    (Page[int], {}),  # every field dropped
    (Page[int], {"item": "1"}),  # one field dropped
    (Page[int], {"itemz": 1, "items": [1]}),  # field renamed
    (Page[int], "not a mapping at all"),
    (list[Page[int]], [{"item": 1, "items": []}, {}]),  # nested, below the root
    (Holder, {"page": {}, "pages": [{"items": ["a"]}]}),  # as a dataclass member
]:
    kind, result = outcome(t, value)
    if kind == "returned":
        problems.append(f"unmarshal({t!r}, {value!r}) returned {result!r}")

assert not problems, "TypedDict results lack required keys:\n  " + "\n  ".join(problems)
