"""typed_dict_signature() takes a parameter's default from getattr(cls, key): a TypedDict is
a dict subclass, so a key called like a dict method gets that method as its default."""
import inspect
import typing as tp

from typelib.py import inspection


class Row(tp.TypedDict):
    id: int
    keys: list[str]
    items: list[int]


sig = inspection.signature(Row)
assert sig.parameters["id"].default is inspect.Parameter.empty  # a total TypedDict has no defaults
bad = {k: p.default for k, p in sig.parameters.items() if p.default is not inspect.Parameter.empty}
assert not bad, bad
