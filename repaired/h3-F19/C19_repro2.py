"""slotted() rebuilds the class but leaves the compiler's `__class__` cell of every
method pointing at the ORIGINAL class, so user pickle hooks of a derived dataclass that
extend the hooks of their base through zero-argument super() raise
"TypeError: super(type, obj): obj must be an instance or subtype of type"
on instances of the slotted class (copy / deepcopy / pickle all fail)."""
import copy
import dataclasses
import pickle
import warnings

from typelib.py import classes

warnings.simplefilter("ignore")


@dataclasses.dataclass
class Base:
    a: int = 1

    def __getstate__(self):
        return {"a": self.a}

    def __setstate__(self, state):
        self.a = state["a"]


@dataclasses.dataclass
class Child(Base):
    b: int = 2

    def __getstate__(self):
        return {**super().__getstate__(), "b": self.b}

    def __setstate__(self, state):
        super().__setstate__(state)
        self.b = state["b"]


# the original dataclass round-trips
o = Child(3, 4)
assert pickle.loads(pickle.dumps(o)) == o
assert copy.copy(o) == o and copy.deepcopy(o) == o

Child = classes.slotted(Child)  # the documented usage: the name is rebound
s = Child(3, 4)
try:
    assert copy.copy(s) == s
    assert copy.deepcopy(s) == s
    assert pickle.loads(pickle.dumps(s)) == s
except TypeError as e:
    raise AssertionError(f"slotted(Child): {e}")
