"""C09 repro 5: a plain class whose fields are declared by its annotated __init__ loses
every field in the graph as soon as it (or a base) also declares a ClassVar.

Svc2 (no ClassVar)  -> nodes for n: Node and k: int
Svc  (with ClassVar) -> only the ClassVar node; n and k are missing.
"""
import dataclasses
import sys
import typing

from typelib import graph


@dataclasses.dataclass
class Node:
    v: int


class Svc2:
    def __init__(self, n: Node, k: int):
        self.n = n
        self.k = k


class Svc:
    instances: typing.ClassVar[int] = 0

    def __init__(self, n: Node, k: int):
        self.n = n
        self.k = k


ref = {(n.var, n.type) for n in graph.static_order(Svc2)}
got = {(n.var, n.type) for n in graph.static_order(Svc)}
print("Svc2:", sorted(map(str, ref)))
print("Svc :", sorted(map(str, got)))
assert ("n", Node) in ref and ("k", int) in ref, "control failed"
if not (("n", Node) in got and ("k", int) in got):
    print("DEFECT: fields n: Node / k: int of Svc have no node in the graph")
    sys.exit(1)
sys.exit(0)
