"""C01 - a plain / __slots__ class annotated through its constructor loses every field as
soon as it carries (or inherits) a ClassVar annotation: the class-level hints are then
non-empty, so get_type_hints() never consults the signature; the routine knows no field."""
import datetime
import typing

import typelib


class Plain:
    KIND: typing.ClassVar[str] = "plain"

    def __init__(self, x: datetime.date, y: int = 0):
        self.x = x
        self.y = y

    def __eq__(self, o):
        return type(o) is type(self) and vars(o) == vars(self)

    def __repr__(self):
        return f"{type(self).__name__}({vars(self)!r})"


class Defaults(Plain):  # every parameter has a default: the loss is silent
    def __init__(self, x: datetime.date = datetime.date.min, y: int = 0):
        super().__init__(x, y)


class Slotted:
    __slots__ = ("x",)
    KIND: typing.ClassVar[str] = "slotted"

    def __init__(self, x: datetime.date):
        self.x = x

    def __eq__(self, o):
        return type(o) is Slotted and o.x == self.x

    def __repr__(self):
        return f"Slotted({self.x!r})"


class Control:  # same class without the ClassVar: round-trips
    def __init__(self, x: datetime.date, y: int = 0):
        self.x = x
        self.y = y

    def __eq__(self, o):
        return type(o) is Control and vars(o) == vars(self)


d = datetime.date(2020, 1, 1)
assert typelib.unmarshal(Control, typelib.marshal(Control(d, 2), t=Control)) == Control(d, 2)

failures = []
for T, v in [(Plain, Plain(d, 2)), (Defaults, Defaults(d, 2)), (Slotted, Slotted(d))]:
    m = typelib.marshal(v, t=T)
    try:
        back = typelib.unmarshal(T, m)
    except Exception as e:  # noqa: BLE001
        back = f"{type(e).__name__}: {e}"
    if back != v:
        failures.append((T, v, m, back))
        print(f"FAIL T={T.__name__} v={v!r} wire={m!r} -> {back!r}")

assert not failures, f"{len(failures)} constructor-annotated classes with a ClassVar did not round-trip"
print("ok")
