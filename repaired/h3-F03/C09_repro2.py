"""C09 repro 2: a parameterised generic *plain* class (fields declared by the annotated
__init__, no class-level annotations) has no field members at all in the graph.

`PBox` -> nodes for value (~T) and tag (str).  `PBox[int]` -> only [int, PBox[int]].
"""
import sys
import typing

from typelib import graph

T = typing.TypeVar("T")


class PBox(typing.Generic[T]):
    def __init__(self, value: T, tag: str):
        self.value = value
        self.tag = tag


bare = graph.static_order(PBox)
par = graph.static_order(PBox[int])
print("PBox     :", [(n.type, n.var) for n in bare])
print("PBox[int]:", [(n.type, n.var) for n in par])

assert {n.var for n in bare} >= {"value", "tag"}, "bare class lost its fields (not the defect under test)"
have = {(n.var, n.type) for n in par}
ok = ("value", int) in have and ("tag", str) in have
if not ok:
    print("DEFECT: PBox[int] has no nodes for its fields value:int / tag:str")
    sys.exit(1)
sys.exit(0)
