"""C15 repro 2: a bare generic class used as a field of another generic is silently parameterised.

`Outer[int].b` is annotated with the bare class `Box` (= Box[Any], a pass-through item); the alias
hints turn it into `Box[int]` because `Box.__parameters__` happens to be the same TypeVar, so input
accepted by `Outer`, by `Box` and by the sibling field `c: list[Box]` is rejected.
"""
import dataclasses
import sys
import typing as tp

import typelib

T = tp.TypeVar("T")


@dataclasses.dataclass
class Box(tp.Generic[T]):
    item: T


@dataclasses.dataclass
class Outer(tp.Generic[T]):
    a: T
    b: Box  # bare: the item cannot be resolved -> pass-through
    c: tp.List[Box]  # bare too, and handled as such


wire = {"a": "1", "b": {"item": "x"}, "c": [{"item": "y"}]}
problems = []

# Reference behaviour: the item of a bare Box passes through.
assert typelib.unmarshaller(Box)({"item": "x"}) == Box("x")
assert typelib.unmarshaller(Outer)(wire) == Outer("1", Box("x"), [Box("y")])

try:
    got = typelib.unmarshaller(Outer[int])(wire)
    if got != Outer(1, Box("x"), [Box("y")]):
        problems.append(f"unmarshal(Outer[int]) -> {got!r}")
except Exception as e:  # noqa: BLE001
    problems.append(f"unmarshal(Outer[int]) raised {type(e).__name__}: {e}")

# Same position, value that happens to be int-like: it must not be converted either.
got = typelib.unmarshaller(Outer[int])({"a": "1", "b": {"item": "2"}, "c": [{"item": "3"}]})
if got.b != Box("2") or got.c != [Box("3")]:
    problems.append(f"bare Box field converted: b={got.b!r} c={got.c!r}")

out = typelib.marshaller(Outer[str])(Outer("a", Box(5), [Box(6)]))
if out != {"a": "a", "b": {"item": 5}, "c": [{"item": 6}]}:
    problems.append(f"marshal(Outer[str]) -> {out!r}")

for p in problems:
    print("DEFECT:", p)
assert not problems, "bare generic field was parameterised with the outer alias' arguments"
sys.exit(0)
