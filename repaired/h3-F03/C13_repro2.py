"""C13 repro 2: a member annotated with a BARE generic class (`raw: Box`, i.e. Box[Any]) is
parameterised with the argument of the enclosing alias when both classes happen to use the
same TypeVar object (the usual module-wide `T`).  A valid value is silently re-typed."""
import dataclasses
import typing as t

from typelib import unmarshal

T = t.TypeVar("T")


@dataclasses.dataclass
class Box(t.Generic[T]):
    v: T


@dataclasses.dataclass
class Holder(t.Generic[T]):
    item: T
    raw: Box  # unparameterised: any Box is valid here


v = Holder(item=1, raw=Box("1"))
r = unmarshal(Holder[int], v)
print(v, "->", r)
assert r == v and type(r.raw.v) is str, f"pass-through violated: {v!r} -> {r!r}"
