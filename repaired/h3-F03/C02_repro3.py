"""C02 repro 3: a parameterised generic *plain* class loses all of its fields.

`Box` declares its fields in the constructor only (like tests/models.py `Vanilla`).
codec(Box) works; codec(Box[int]) encodes every value as b'{}' and cannot decode it:
the hints of the alias are read from inspect.signature(Box[int]) == (*args, **kwargs).
Exit status 1 while the defect is present, 0 once fixed.
"""
import json
import sys
import typing

import typelib

T = typing.TypeVar("T")


class Box(typing.Generic[T]):
    def __init__(self, item: T, items: list[T]):
        self.item = item
        self.items = items

    def __eq__(self, other):
        return type(other) is Box and (other.item, other.items) == (self.item, self.items)

    def __repr__(self):
        return f"Box({self.item!r}, {self.items!r})"


def main() -> int:
    problems = []
    v = Box(1, [2, 3])
    expected_wire = {"item": 1, "items": [2, 3]}
    # The unparameterised class is fine (reference behaviour).
    c0 = typelib.codec(Box)
    assert json.loads(c0.encode(v)) == expected_wire and c0.decode(c0.encode(v)) == v

    for label, kw in (("default", {}), ("stdlib", dict(encoder=lambda o: json.dumps(o).encode(), decoder=json.loads))):
        c = typelib.codec(Box[int], **kw)
        wire = c.encode(v)
        if json.loads(wire) != expected_wire:
            problems.append(f"[{label}] codec(Box[int]).encode({v!r}) == {wire!r}, expected {expected_wire!r}")
        try:
            back = c.decode(wire)
            if back != v:
                problems.append(f"[{label}] decode(encode(v)) == {back!r}")
        except Exception as e:  # noqa: BLE001
            problems.append(f"[{label}] decode(encode(v)) raised {type(e).__name__}: {e}")
    if typelib.marshal(v, t=Box[int]) != expected_wire:
        problems.append(f"marshal(v, t=Box[int]) == {typelib.marshal(v, t=Box[int])!r}")
    try:
        if typelib.decode(Box[int], b'{"item": 1, "items": [2, 3]}') != v:
            problems.append("decode(Box[int], ...) != v")
    except Exception as e:  # noqa: BLE001
        problems.append(f"decode(Box[int], valid wire) raised {type(e).__name__}: {e}")
    for p in problems:
        print("DEFECT:", p)
    return 1 if problems else 0


if __name__ == "__main__":
    sys.exit(main())
