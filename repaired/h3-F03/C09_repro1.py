"""C09 repro 1: a bare (unparameterised) generic class used as a field type of a generic
class is silently re-parameterised when the outer class is parameterised.

`Pair[int]` has the field `anybox: Box` (i.e. Box[Any]).  The graph emits a node for
`Box[int]` under var 'anybox' and no node for `Box`.
"""
import dataclasses
import sys
import typing

from typelib import graph

T = typing.TypeVar("T")


@dataclasses.dataclass
class Box(typing.Generic[T]):
    value: T


@dataclasses.dataclass
class Pair(typing.Generic[T]):
    first: T
    anybox: Box  # deliberately bare


order = graph.static_order(Pair[int])
by_var = {n.var: n.type for n in order if n.var is not None}
print([(n.type, n.var, n.cyclic) for n in order])

# the member type the class directly contains is `Box`, not `Box[int]`
assert typing.get_type_hints(Pair)["anybox"] is Box
ok = by_var.get("anybox") is Box
if not ok:
    print("DEFECT: field 'anybox: Box' of Pair[int] is represented by", by_var.get("anybox"))
    sys.exit(1)
sys.exit(0)
