"""C15 repro 1: a parameterised user generic whose fields are only declared in __init__.

`Stack` (bare) gets working routines; `Stack[int]` gets routines built from the signature of the
typing alias object, `(*args, **kwargs)`: the unmarshaller can never construct the class and the
marshaller silently emits `{}`.
"""
import sys
import typing as tp

import typelib

T = tp.TypeVar("T")


class Stack(tp.Generic[T]):
    def __init__(self, items: tp.List[T], name: str = "s"):
        self.items = items
        self.name = name


wire = {"items": ["1", "2"], "name": "n"}
problems = []

# The bare class works (T is a pass-through position).
bare = typelib.unmarshaller(Stack)(wire)
assert bare.items == ["1", "2"] and bare.name == "n"
assert typelib.marshaller(Stack)(Stack([1], "n")) == {"items": [1], "name": "n"}

# The parameterised class must work as well.
try:
    got = typelib.unmarshaller(Stack[int])(wire)
    if not (got.items == [1, 2] and got.name == "n"):
        problems.append(f"unmarshal(Stack[int]) -> items={got.items!r} name={got.name!r}")
except Exception as e:  # noqa: BLE001
    problems.append(f"unmarshal(Stack[int]) raised {type(e).__name__}: {e}")

out = typelib.marshaller(Stack[int])(Stack([1, 2], "n"))
if out != {"items": [1, 2], "name": "n"}:
    problems.append(f"marshal(Stack[int]) -> {out!r}")

try:
    c = typelib.codec(Stack[int])
    back = c.decode(c.encode(Stack([1, 2], "n")))
    if not (back.items == [1, 2] and back.name == "n"):
        problems.append("codec(Stack[int]) round trip lost the fields")
except Exception as e:  # noqa: BLE001
    problems.append(f"codec(Stack[int]) round trip raised {type(e).__name__}: {e}")

for p in problems:
    print("DEFECT:", p)
assert not problems, "Stack[int] does not get working routines"
sys.exit(0)
