"""C05 / root cause 1: a member annotated with a *bare* generic class is silently
re-parameterised when its owner is used as a parameterised generic.

Outer[int].inner is annotated `Box` (= Box[Any]: `item` passes through), but
typelib builds the routine of `Box[int]` for it.
"""
import dataclasses
import decimal
import typing

import typelib

T = typing.TypeVar("T")


@dataclasses.dataclass
class Box(typing.Generic[T]):
    item: T


@dataclasses.dataclass
class Outer(typing.Generic[T]):
    value: T
    inner: Box  # bare generic: the annotated type of this member is `Box`
    maybe: typing.Optional[Box] = None  # (same class, one level down: left alone)


x = {"value": "1", "inner": {"item": "2"}, "maybe": {"item": "3"}}

# The member routine, obtained independently for the member's annotated type.
member = typelib.unmarshal(Box, {"item": "2"})
assert member == Box(item="2"), member  # `item: T` passes through

got = typelib.unmarshal(Outer[int], x)
expected = Outer(
    value=typelib.unmarshal(int, "1"),
    inner=member,
    maybe=typelib.unmarshal(typing.Optional[Box], {"item": "3"}),
)
print("got     :", got)
print("expected:", expected)
assert got == expected, "member `inner: Box` was converted by the routine of Box[int]"

# Same on the marshal side: Box.item is declared T (pass-through), not Decimal.
val = Outer(value=decimal.Decimal("1"), inner=Box(item=decimal.Decimal("2")))
m_got = typelib.marshal(val, t=Outer[decimal.Decimal])
m_expected = {
    "value": typelib.marshal(val.value, t=decimal.Decimal),
    "inner": typelib.marshal(val.inner, t=Box),
    "maybe": None,
}
print("marshal got     :", m_got)
print("marshal expected:", m_expected)
assert m_got == m_expected
