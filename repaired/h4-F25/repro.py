"""C10 repro 1: a callable instance whose __call__ is inherited from a base class written in
another module gets its string annotations (from __future__ import annotations) looked up in
the module of the *instance's class*, not in the module the signature was written in.

Exits 1 while the defect is present, 0 once fixed.
"""
import sys
import types

from typelib import binding, unmarshals


def make_module(name, source):
    mod = types.ModuleType(name)
    sys.modules[name] = mod
    exec(compile(source, f"<{name}>", "exec"), mod.__dict__)
    return mod


base = make_module(
    "c10r1_base",
    """
from __future__ import annotations
import dataclasses

@dataclasses.dataclass
class Money:
    amount: int

class Base:
    def __call__(self, m: Money, /, n: Money, *rest: Money, k: Money, **kw: Money):
        return (m, n, rest, k, kw)
""",
)
# (a) the subclass's module does not know the name at all
sub_a = make_module(
    "c10r1_sub_a",
    """
import c10r1_base
class Sub(c10r1_base.Base):
    pass
""",
)
# (b) the subclass's module binds the same name to an unrelated class
sub_b = make_module(
    "c10r1_sub_b",
    """
import dataclasses
import c10r1_base

@dataclasses.dataclass
class Money:
    amount: str
    currency: str = "other module"

class Sub(c10r1_base.Base):
    pass
""",
)

ARGS = ({"amount": "1"}, {"amount": "2"}, {"amount": "3"})
KWARGS = {"k": {"amount": "4"}, "extra": {"amount": "5"}}
um = lambda v: unmarshals.unmarshal(base.Money, v)  # noqa: E731
EXPECTED = (um(ARGS[0]), um(ARGS[1]), (um(ARGS[2]),), um(KWARGS["k"]), {"extra": um(KWARGS["extra"])})

failures = []
for label, make in [
    ("bind(Sub()) / name unknown in Sub's module", lambda: binding.bind(sub_a.Sub())),
    ("wrap(Sub()) / name unknown in Sub's module", lambda: binding.wrap(sub_a.Sub())),
    ("bind(Sub()) / name rebound in Sub's module", lambda: binding.bind(sub_b.Sub())),
    ("wrap(Sub()) / name rebound in Sub's module", lambda: binding.wrap(sub_b.Sub())),
    # control: the very same signature reached as a bound method is resolved correctly
    ("bind(Sub().__call__) [control]", lambda: binding.bind(sub_b.Sub().__call__)),
]:
    try:
        got = make()(*ARGS, **KWARGS)
    except Exception as e:  # noqa: BLE001
        got = f"{type(e).__name__}: {e}"
    ok = got == EXPECTED
    print(("ok   " if ok else "FAIL ") + label, "->", got)
    if not ok:
        failures.append(label)

assert not failures, failures
