"""C13 / root cause 3: a class-level annotation of a private attribute hides the fields that the
annotated constructor describes (the signature is consulted only when every class-level
annotation is a ClassVar), so an already valid instance does not pass through unmarshal.

Exits 1 (AssertionError) while the defect is present, 0 once it is repaired.
"""
import typelib


class Client:
    _cache: dict  # private instance attribute, declared for the type checker

    def __init__(self, host: str, port: int):
        self.host = host
        self.port = port
        self._cache = {}

    def __eq__(self, other):
        return type(other) is Client and (other.host, other.port) == (self.host, self.port)

    def __repr__(self):
        return f"Client({self.host!r}, {self.port!r})"


class Options:
    _frozen: bool

    def __init__(self, name: str = "default", level: int = 0):
        self.name = name
        self.level = level
        self._frozen = False

    def __eq__(self, other):
        return type(other) is Options and (other.name, other.level) == (self.name, self.level)

    def __repr__(self):
        return f"Options({self.name!r}, {self.level!r})"


def check(t, v, label):
    try:
        out = typelib.unmarshal(t, v)
    except Exception as exc:  # noqa: BLE001
        raise AssertionError(
            f"{label}: unmarshal({t.__name__}, {v!r}) raised {type(exc).__name__}: {exc}"
        ) from None
    assert type(out) is type(v) and out == v, (
        f"{label}: unmarshal({t.__name__}, {v!r}) returned {out!r}"
    )


check(Client, Client("1", 80), "pass-through")
# every parameter has a default: no exception, the contents are silently replaced
check(Options, Options("null", 2), "pass-through (defaults)")
print("ok")
