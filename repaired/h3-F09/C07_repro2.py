"""C07 repro 2: a classic recursive value alias cannot be resolved even in its own module.

`Tree = Union[List["Tree"], int]` - `typing` turns "Tree" into a reference without a
module. refs._resolve_module_name() finds the object bound to `Tree` on the stack (this
module) but then asks *that object* for its `__module__`; a typing construct answers
"typing" (an `X | Y` union answers "types"), so "Tree" is evaluated in typing's namespace:
NameError while the marshaller / unmarshaller is being built. A value alias that names a
class (`Kids = List["Node"]`) resolves, because a class knows the module it lives in.

Exit status 1 (AssertionError) while the defect is present, 0 once fixed.
"""
import dataclasses
import sys
from typing import Dict, List, Optional, Union

import typelib


@dataclasses.dataclass
class Node:
    v: int = 0
    kids: "Kids" = dataclasses.field(default_factory=list)


Kids = List["Node"]  # names a class: resolves
Tree = Union[List["Tree"], int]  # names itself: does not
MapTree = Optional[Dict[str, "MapTree"]]
NewTree = list["NewTree"] | int


def nest(wrap, depth, leaf):
    value = leaf
    for _ in range(depth):
        value = wrap(value)
    return value


failures = []
# control: the same mechanism works when the name is a class
assert typelib.unmarshal(Kids, [{"v": "1", "kids": [{"v": "2"}]}]) == [Node(1, [Node(2)])]

for name, t, wrap, leaf in (
    ("Tree", Tree, lambda v: [v, 7], 1),
    ("MapTree", MapTree, lambda v: {"k": v}, None),
    ("NewTree", NewTree, lambda v: [v], 1),
):
    for depth in (0, 1, 2, 5, 12):
        value = nest(wrap, depth, leaf)
        try:
            out = typelib.marshal(value, t=t)
            assert out == value, out
            back = typelib.unmarshal(t, out)
            assert back == value, back
        except Exception as exc:  # noqa: BLE001
            failures.append((name, depth, type(exc).__name__, str(exc)[:100]))

for f in failures[:6]:
    print("FAIL", f, file=sys.stderr)
assert not failures, f"{len(failures)} cases failed"
print("ok")
