"""C11 repro 4: a bare name that the caller's module binds to a type defined elsewhere
(`from decimal import Decimal as Dec`, `IntList = list[int]`) cannot be used as a string
reference: the module is guessed from the object's own __module__, where the name does not
exist."""
import sys
import typing
from datetime import date as Date
from decimal import Decimal as Dec

import typelib

IntList = list[int]
OptInt = typing.Optional[int]
UserId = int


def attempt(f):
    try:
        return ("ok", f())
    except Exception as e:  # noqa: BLE001
        return ("err", type(e).__name__, str(e))


cases = [
    ("Dec", Dec, "1.5"),
    ("Date", Date, "2020-01-02"),
    ("IntList", IntList, ["1", "2"]),
    ("OptInt", OptInt, "3"),
    ("UserId", UserId, "4"),
]
failures = []
for name, t, value in cases:
    # every name is resolvable from this (the caller's) module:
    assert eval(name) is t or eval(name) == t
    expected = attempt(lambda: typelib.unmarshal(t, value))
    for label, ref in ((repr(name), name), (f"list[{name!r}]", None), (f"Optional[{name!r}]", None)):
        if label.startswith("list"):
            got = attempt(lambda: typelib.unmarshal(list[name], [value]))
            want = attempt(lambda: typelib.unmarshal(list[t], [value]))
        elif label.startswith("Optional"):
            got = attempt(lambda: typelib.unmarshal(typing.Optional[name], value))
            want = attempt(lambda: typelib.unmarshal(typing.Optional[t], value))
        else:
            got = attempt(lambda: typelib.unmarshal(ref, value))
            want = expected
        if got != want:
            failures.append(f"{label}: the type itself gives {want!r}, the reference gives {got!r}")
for f in failures:
    print("DEFECT:", f)
assert not failures, "names bound in the caller's module are not resolvable as string references"
print("ok")
sys.exit(0)
