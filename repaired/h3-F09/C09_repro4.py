"""C09 repro 4: a string input that is the bare name of a module-level alias (or of a
class imported under another name) does not give the sequence of the evaluated type: it
raises NameError, because the name is looked up in the module recorded in the *value's*
__module__ ('builtins' for list[int], 'typing' for Optional[int], 'decimal' for Decimal)
instead of the namespace in which the name was found.
"""
import sys
import typing
from decimal import Decimal as Dec

from typelib import graph

IntList = list[int]
OptInt = typing.Optional[int]

failures = []
for text, evaluated in (("IntList", IntList), ("OptInt", OptInt), ("Dec", Dec)):
    expected = graph.static_order(evaluated)
    try:
        got = graph.static_order(text)
    except Exception as e:  # noqa: BLE001
        failures.append((text, repr(e)))
        continue
    if list(got) != list(expected):
        failures.append((text, got))

# the same names as string members of a builtin generic
for t, evaluated in ((dict[str, "IntList"], dict[str, IntList]),):
    try:
        got = graph.static_order(t)
    except Exception as e:  # noqa: BLE001
        failures.append((t, repr(e)))
        continue
    if [n.type for n in got][:-1] != [n.type for n in graph.static_order(evaluated)][:-1]:
        failures.append((t, got))

# silent variant: the imported-as name also exists in the class' home module, where it
#   means another class -> the graph of the wrong class is returned without any error
import types  # noqa: E402

home = types.ModuleType("c09_home")
sys.modules["c09_home"] = home
exec(
    "import dataclasses\n"
    "@dataclasses.dataclass\nclass Item:\n    price: float\n"
    "@dataclasses.dataclass\nclass Node:\n    v: int\n",
    home.__dict__,
)
Item = home.Node  # what `from c09_home import Node as Item` binds
got = graph.static_order("Item")
if got[-1].type is not home.Node:
    failures.append(("Item (= c09_home.Node)", got[-1].type))

# control: the very same names inside a longer text do resolve (caller's module is used)
assert [n.type for n in graph.static_order("dict[str, IntList]")][-1] == dict[str, list[int]]

if failures:
    for f in failures:
        print("DEFECT:", f)
    sys.exit(1)
sys.exit(0)
