"""C06 repro 3: the enum / pattern routines read `.value` / `.pattern` off any object, so
inside a union a valid value of a *later* member is emitted as that raw attribute."""
import dataclasses
import decimal
import enum
import json
import re
import typing

import typelib


class Status(enum.Enum):
    OPEN = "open"


@dataclasses.dataclass
class Money:
    value: decimal.Decimal
    currency: str


@dataclasses.dataclass
class Rule:
    pattern: tuple[int, ...]


money = Money(decimal.Decimal("1.50"), "EUR")
expected_money = {"value": "1.50", "currency": "EUR"}

out1 = typelib.marshal(money, t=typing.Union[Status, Money])
out2 = typelib.marshal([money], t=list[Status | Money])
out3 = typelib.marshal(Rule((1, 2)), t=typing.Union[re.Pattern, Rule])

problems = []
if out1 != expected_money or type(out1) is not dict:
    problems.append(f"Union[Status, Money] -> {out1!r}")
if out2 != [expected_money]:
    problems.append(f"list[Status | Money] -> {out2!r}")
if out3 != {"pattern": [1, 2]} or type(out3) is not dict:
    problems.append(f"Union[re.Pattern, Rule] -> {out3!r}")
for out in (out1, out2):
    try:
        json.dumps(out)
    except TypeError as e:
        problems.append(f"json.dumps({out!r}): {e}")
assert not problems, problems
