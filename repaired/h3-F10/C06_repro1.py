"""C06 repro 1: a user subclass of int / float used as the type is marshalled with the
subclass constructor, so the output is not an exact builtin int / float."""
import dataclasses
import typing

import typelib


class UserId(int):
    pass


class Celsius(float):
    pass


@dataclasses.dataclass
class Reading:
    sensor: UserId
    temp: Celsius


Alias = typing.NewType("Alias", UserId)

outputs = {
    "root int subclass": typelib.marshal(UserId(7), t=UserId),
    "root float subclass": typelib.marshal(Celsius(21.5), t=Celsius),
    "default t": typelib.marshal(UserId(7)),
    "NewType": typelib.marshal(Alias(UserId(7)), t=Alias),
    "list member": typelib.marshal([UserId(7)], t=list[UserId])[0],
    "dict value": typelib.marshal({"a": Celsius(1.0)}, t=dict[str, Celsius])["a"],
    "dict key": next(iter(typelib.marshal({UserId(7): "x"}, t=dict[UserId, str]))),
    "dataclass field (int)": typelib.marshal(Reading(UserId(7), Celsius(21.5)))["sensor"],
    "dataclass field (float)": typelib.marshal(Reading(UserId(7), Celsius(21.5)))["temp"],
}
bad = {k: type(v) for k, v in outputs.items() if type(v) not in (int, float)}
assert not bad, f"non-builtin numbers left in the marshalled output: {bad}"
