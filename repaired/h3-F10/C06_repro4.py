"""C06 repro 4: str(v) is not an exact str for a str subclass whose __str__ returns self
(the pattern of e.g. django.utils.safestring.SafeString)."""
import dataclasses

import typelib


class SafeString(str):
    def __str__(self):
        return self


@dataclasses.dataclass
class Page:
    title: str


v = SafeString("hello")
outs = {
    "root": typelib.marshal(v, t=str),
    "list member": typelib.marshal([v], t=list[str])[0],
    "dict key": next(iter(typelib.marshal({v: 1}, t=dict[str, int]))),
    "field": typelib.marshal(Page(v), t=Page)["title"],
}
bad = {k: type(o) for k, o in outs.items() if type(o) is not str}
assert not bad, f"str subclass instances left in the marshalled output: {bad}"
