"""C02 / root cause 2: a str value whose class overrides __str__ is written as that text.

`class Kind(str, enum.Enum)` members are instances of str (valid values for T = str and for the
keys of dict[str, ...]).  StringMarshaller writes `str(val)`, which for such a member is
'Kind.B' (Python >= 3.11), not the text the value *is* ('b').  The wire therefore carries
another string and decode(encode(v)) != v.  (The sibling routine for int/float writes a
subclass instance "as the primitive it extends"; the str routine does not.)
"""
import dataclasses
import enum
import json
import sys

import typelib


class Kind(str, enum.Enum):
    A = "a"
    B = "b"


class Tagged(str):
    """An ordinary str subclass with a decorated __str__."""

    def __str__(self):
        return f"<{str.__str__(self)}>"


@dataclasses.dataclass
class Item:
    name: str


def std_enc(o):
    return json.dumps(o).encode()


failures = []


def roundtrip(T, v, label):
    for cfg_name, kw in (("default", {}), ("stdlib", dict(encoder=std_enc, decoder=json.loads))):
        c = typelib.codec(T, **kw)
        enc = c.encode(v)
        dec = c.decode(enc)
        enc_kw = {"encoder": kw["encoder"]} if kw else {}
        dec_kw = {"decoder": kw["decoder"]} if kw else {}
        assert typelib.encode(v, t=T, **enc_kw) == enc
        assert typelib.decode(T, enc, **dec_kw) == dec
        print(f"{label:28} [{cfg_name}] wire={bytes(enc)!r} decoded={dec!r}")
        if dec != v:
            failures.append((label, cfg_name, bytes(enc), dec))


assert isinstance(Kind.B, str) and Kind.B == "b"
roundtrip(str, Kind.B, "T=str, v=Kind.B")
roundtrip(dict[str, int], {Kind.B: 1}, "T=dict[str,int], key=Kind.B")
roundtrip(Item, Item(name=Kind.B), "T=Item(name: str)")
roundtrip(list[str], [Tagged("x")], "T=list[str], v=[Tagged('x')]")
# control: what the two JSON libraries themselves write for the same value
print("json.dumps(Kind.B) =", json.dumps(Kind.B))

if failures:
    print("DEFECT: decode(encode(v)) != v for", len(failures), "case(s)")
    sys.exit(1)
print("ok")
