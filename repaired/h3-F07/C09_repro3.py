"""C09 repro 3: the cycle cut of a nested class yields a forward reference that does not
resolve when the enclosing class has the same name as its (top-level) module.

module `Config`, class `Config`, nested class `Config.Section` that refers to itself:
the deferred node is ForwardRef('Section', module='Config') - the leading `Config.` of
the *qualified class name* was stripped as if it were a module qualifier.
"""
import sys
import types

from typelib import graph
from typelib.py import refs

SRC = '''
import dataclasses, typing

@dataclasses.dataclass
class Config:
    @dataclasses.dataclass
    class Section:
        sub: "typing.Optional[Config.Section]" = None
    root: "typing.Optional[Config.Section]" = None
'''
mod = types.ModuleType("Config")
sys.modules["Config"] = mod
exec(compile(SRC, "Config.py", "exec"), mod.__dict__)
Section = mod.Config.Section

order = graph.static_order(Section)
print([(n.type, n.var, n.cyclic) for n in order])
bad = []
for n in order:
    if isinstance(n.type, refs.ForwardRef):
        try:
            got = refs.evaluate(n.type)
        except Exception as e:  # noqa: BLE001
            bad.append((n.type, repr(e)))
            continue
        if got is not Section:
            bad.append((n.type, got))
assert any(n.cyclic for n in order), "expected a cycle cut"
if bad:
    print("DEFECT: deferred node does not denote Config.Section:", bad)
    sys.exit(1)
sys.exit(0)
