"""C05 / root cause 2: the reference made for a class that is met again in the type
graph loses the first component of its qualified name when that component equals the
name of the module (module `shape`, class `shape`, nested class `shape.Part`).
The members of the recursive `shape.Part` are then built as the *top-level* `Part`
of the module (or fail with NameError when there is no such class).
"""
import importlib
import os
import sys
import tempfile
import textwrap

import typelib

SRC = '''
from __future__ import annotations
import dataclasses


@dataclasses.dataclass
class Part:                      # unrelated top-level class with the same short name
    size: int
    children: list[Part] = dataclasses.field(default_factory=list)


class shape:                     # a class named like its module
    @dataclasses.dataclass
    class Part:
        size: str
        children: list[shape.Part] = dataclasses.field(default_factory=list)
'''

d = tempfile.mkdtemp(prefix="c05_r2_")
with open(os.path.join(d, "shape.py"), "w") as f:
    f.write(textwrap.dedent(SRC))
sys.path.insert(0, d)
m = importlib.import_module("shape")
Nested = m.shape.Part

x = {"size": 1, "children": [{"size": 2, "children": [{"size": 3}]}]}

# Member routine obtained independently for the member's annotated type.
members = typelib.unmarshal(list[Nested], x["children"])
expected = Nested(size=typelib.unmarshal(str, 1), children=members)
assert expected == Nested("1", [Nested("2", [Nested("3", [])])]), expected

try:
    got = typelib.unmarshal(Nested, x)
except NameError as e:  # (what happens without the top-level twin)
    got = e
print("got     :", got)
print("expected:", expected)
assert got == expected, "children of shape.Part were routed to the top-level Part"

# marshal: the declared member type is shape.Part (size: str), not Part (size: int)
val = Nested("a", [Nested("b", [])])
assert typelib.marshal(val) == {"size": "a", "children": [{"size": "b", "children": []}]}
