"""C07 repro 3: a cyclic nested class in a module that carries the name of the outer class.

Module `Tree` defines `class Tree` with the nested, self-referential `Tree.Node`.
The cycle is closed with a reference ForwardRef("Tree.Node", module="Tree");
refs.forwardref() takes the leading "Tree." for the module qualifier and removes it,
so the reference reads "Node", which the module does not define. Depth 0 works
(the lazy proxy is never called); every value of depth >= 1 fails.

Exit status 1 (AssertionError) while the defect is present, 0 once fixed.
"""
import sys
import types

import typelib

SOURCE = '''
import dataclasses
from typing import Optional


class Tree:
    @dataclasses.dataclass
    class Node:
        v: int = 0
        nxt: "Optional[Tree.Node]" = None
        kids: "list[Tree.Node]" = dataclasses.field(default_factory=list)
        by: "dict[str, Tree.Node]" = dataclasses.field(default_factory=dict)
'''
module = types.ModuleType("Tree")
sys.modules["Tree"] = module
exec(SOURCE, module.__dict__)
Node = module.Tree.Node


def build(depth, field):
    node = Node(v=depth)
    for i in range(depth):
        node = Node(v=i, **{field: {"nxt": node, "kids": [node], "by": {"k": node}}[field]})
    return node


def wire(node):
    return {
        "v": node.v,
        "nxt": None if node.nxt is None else wire(node.nxt),
        "kids": [wire(k) for k in node.kids],
        "by": {k: wire(v) for k, v in node.by.items()},
    }


failures = []
for root, wrap in ((Node, lambda n: n), (list[Node], lambda n: [n])):
    for field in ("nxt", "kids", "by"):
        for depth in (0, 1, 2, 5):
            node = build(depth, field)
            value, expected = wrap(node), wrap(wire(node))
            try:
                out = typelib.marshal(value, t=root)
                assert out == expected, out
                back = typelib.unmarshal(root, expected)
                assert back == value, back
            except Exception as exc:  # noqa: BLE001
                failures.append((root, field, depth, type(exc).__name__, str(exc)[:120]))

for f in failures[:8]:
    print("FAIL", f, file=sys.stderr)
assert not failures, f"{len(failures)} cases failed (all of depth >= 1: {all(f[2] >= 1 for f in failures)})"
print("ok")
