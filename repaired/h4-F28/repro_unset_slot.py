"""C13 / root cause 2: an instance of a __slots__ class with a public slot that has not been
assigned (yet) cannot pass through unmarshal: the slots strategy of the field iterator
reads every declared slot with a bare getattr().

Exits 1 (AssertionError) while the defect is present, 0 once it is repaired.
"""
import typelib


class Connection:
    __slots__ = ("host", "port", "socket")

    def __init__(self, host: str, port: int):
        self.host = host
        self.port = port
        # `socket` is assigned by connect(), not by the constructor.

    def __eq__(self, other):
        return type(other) is Connection and (other.host, other.port) == (
            self.host,
            self.port,
        )

    def __repr__(self):
        return f"Connection({self.host!r}, {self.port!r})"


def check(v, label):
    try:
        out = typelib.unmarshal(Connection, v)
    except Exception as exc:  # noqa: BLE001
        raise AssertionError(
            f"{label}: unmarshal(Connection, {v!r}) raised {type(exc).__name__}: {exc}"
        ) from None
    assert type(out) is Connection and out == v, f"{label}: got {out!r}"


# pass-through form ("12" is text that parses as a number)
check(Connection("12", 80), "pass-through")
# idempotence form: the first call succeeds, its own result is then rejected
first = typelib.unmarshal(Connection, {"host": "12", "port": "80"})
assert first == Connection("12", 80), first
check(first, "idempotence")
print("ok")
