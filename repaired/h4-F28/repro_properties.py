"""C13 / root cause 1: a custom class that exposes its constructor parameters through
properties (or any descriptor / __getattr__) and stores them privately does not pass
through unmarshal: the field iterator only looks at __slots__ / the instance __dict__.

Exits 1 (AssertionError) while the defect is present, 0 once it is repaired.
"""
import typelib


class Account:
    """Plain class, fields described by the annotated constructor, read-only properties."""

    def __init__(self, owner: str, balance: int):
        self._owner = owner
        self._balance = balance

    @property
    def owner(self) -> str:
        return self._owner

    @property
    def balance(self) -> int:
        return self._balance

    def __eq__(self, other):
        return type(other) is Account and (other.owner, other.balance) == (
            self.owner,
            self.balance,
        )

    def __repr__(self):
        return f"Account({self.owner!r}, {self.balance!r})"


class Settings:
    """Same shape, every parameter has a default: the loss is silent."""

    __slots__ = ("_name", "_retries")

    def __init__(self, name: str = "default", retries: int = 3):
        self._name = name
        self._retries = retries

    name = property(lambda self: self._name)
    retries = property(lambda self: self._retries)

    def __eq__(self, other):
        return type(other) is Settings and (other.name, other.retries) == (
            self.name,
            self.retries,
        )

    def __repr__(self):
        return f"Settings({self.name!r}, {self.retries!r})"


def check(t, v, label):
    try:
        out = typelib.unmarshal(t, v)
    except Exception as exc:  # noqa: BLE001
        raise AssertionError(
            f"{label}: unmarshal({t.__name__}, {v!r}) raised {type(exc).__name__}: {exc}"
        ) from None
    assert type(out) is type(v) and out == v, (
        f"{label}: unmarshal({t.__name__}, {v!r}) returned {out!r}"
    )


# pass-through form, adversarial text content ("1" parses as a number)
check(Account, Account("1", 5), "pass-through")
# idempotence form: the first call succeeds on the wire form, the second must not change it
first = typelib.unmarshal(Account, {"owner": "1", "balance": "5"})
assert first == Account("1", 5), first
check(Account, first, "idempotence")
# silent variant: no exception, the contents are replaced by the constructor defaults
check(Settings, Settings("null", 7), "pass-through (defaults)")
print("ok")
