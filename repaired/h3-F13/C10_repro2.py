"""C10 / root cause 2: wrap()/bind() evaluate string annotations eagerly, at
decoration time, so the standard forward reference of a method to its own class
(or of a function to a class defined further down the module) makes the decorator
raise NameError - although every call of the callable happens when the name exists.

Exits 1 (AssertionError) while the defect is present, 0 once it is repaired.
"""
import dataclasses
import traceback

from typelib import binding

failures = []

# (a) a method whose parameter is annotated with its own class: the reference can
#     only be written as a string, the class does not exist yet inside its own body.
try:

    @dataclasses.dataclass
    class Node:
        v: int

        @binding.wrap
        def merge(self, other: "Node", *more: "Node", scale: int = 1, **named: "Node") -> "Node":
            total = self.v + other.v + sum(n.v for n in more) + sum(n.v for n in named.values())
            return Node(total * scale)

    got = Node(1).merge({"v": "2"}, {"v": "3"}, scale="2", x={"v": "4"})
    if got != Node(20):
        failures.append(f"Node.merge returned {got!r}, expected {Node(20)!r}")
except Exception as e:  # noqa: BLE001
    traceback.print_exc()
    failures.append(f"@wrap on a method annotated with its own class raised {e!r}")

# (b) a function decorated above the class it refers to.
try:

    @binding.wrap
    def total(first: "Later", *rest: "Later") -> int:
        return first.x + sum(r.x for r in rest)

    @dataclasses.dataclass
    class Later:
        x: int

    got = total({"x": "1"}, {"x": "2"})
    if got != 3:
        failures.append(f"total returned {got!r}, expected 3")
except Exception as e:  # noqa: BLE001
    traceback.print_exc()
    failures.append(f"@wrap above the class it refers to raised {e!r}")

# (c) a class decorator runs before the class name is bound, so the same happens for
#     an __init__ that refers to its own class.
try:

    @binding.wrap
    class Tree:
        def __init__(self, v: int, parent: "Tree" = None):
            self.v = v
            self.parent = parent

    t = Tree("1", parent={"v": "2"})
    if not (t.v == 1 and isinstance(t.parent, Tree) and t.parent.v == 2):
        failures.append(f"Tree('1', parent={{'v': '2'}}) gave v={t.v!r}, parent={t.parent!r}")
except Exception as e:  # noqa: BLE001
    traceback.print_exc()
    failures.append(f"@wrap on a class whose __init__ refers to the class raised {e!r}")

for line in failures:
    print("DEFECT:", line)
assert not failures, "wrap() resolved a forward reference before the callable was ever called"
print("ok")
