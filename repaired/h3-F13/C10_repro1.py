"""C10 / root cause 1: bind()/wrap() resolve string (PEP 563) annotations in the
namespace of whoever calls bind()/wrap(), not in the namespace of the function that
carries them.

Exits 1 (AssertionError) while the defect is present, 0 once it is repaired.
"""
import dataclasses
import sys
import types
import typing

from typelib import binding
from typelib.unmarshals import unmarshal

# A module that uses `from __future__ import annotations`: every annotation of its
# functions is a string, to be read in *that* module's namespace.
SRC = '''
from __future__ import annotations
import dataclasses
from fractions import Fraction as Fr

@dataclasses.dataclass
class Money:
    amount: int

def g(a: Fr, /, b: Fr, *c: Fr, d: Fr, **e: Fr):
    return a, b, c, d, e

def h(m: Money, *ms: Money, k: Money, **kw: Money):
    return m, ms, k, kw
'''
defs = types.ModuleType("c10_repro1_defs")
sys.modules[defs.__name__] = defs
exec(compile(SRC, "c10_repro1_defs.py", "exec"), defs.__dict__)


# The calling module happens to own an unrelated class with the same bare name.
@dataclasses.dataclass
class Money:
    amount: str
    note: str = "the caller's class"


def oracle(fn, args, kwargs):
    hints = typing.get_type_hints(fn)  # the annotations, as Python itself reads them
    sig = __import__("inspect").signature(fn)
    bound = sig.bind(*args, **kwargs)
    out = {}
    for name, value in bound.arguments.items():
        p, t = sig.parameters[name], hints[name]
        if p.kind is p.VAR_POSITIONAL:
            out[name] = tuple(unmarshal(t, v) for v in value)
        elif p.kind is p.VAR_KEYWORD:
            out[name] = {k: unmarshal(t, v) for k, v in value.items()}
        else:
            out[name] = unmarshal(t, value)
    return out


failures = []

# (a) silently the wrong unmarshaller: "Money" is looked up in the caller's module.
args, kwargs = ({"amount": "3"}, {"amount": "4"}), {"k": {"amount": "5"}, "z": {"amount": "6"}}
exp = oracle(defs.h, args, kwargs)
for label, make in (("bind", binding.bind), ("wrap", binding.wrap)):
    try:
        m, ms, k, kw = make(defs.h)(*args, **kwargs)
        got = {"m": m, "ms": ms, "k": k, "kw": kw}
    except Exception as e:  # noqa: BLE001
        got = repr(e)
    if got != exp or type(got["m"]) is not defs.Money:
        failures.append(f"{label}(h): f received {got!r}, expected {exp!r}")

# (b) a name the caller's module does not have at all: NameError out of bind()/wrap().
args, kwargs = ("1/2", "1/3", "1/4"), {"d": "1/5", "z": "1/6"}
exp = oracle(defs.g, args, kwargs)
for label, make in (("bind", binding.bind), ("wrap", binding.wrap)):
    try:
        a, b, c, d, e = make(defs.g)(*args, **kwargs)
        got = {"a": a, "b": b, "c": c, "d": d, "e": e}
    except Exception as ex:  # noqa: BLE001
        got = repr(ex)
    if got != exp:
        failures.append(f"{label}(g): got {got!r}, expected {exp!r}")

for line in failures:
    print("DEFECT:", line)
assert not failures, f"{len(failures)} bound call(s) did not convert per the parameter's own annotation"
print("ok")
