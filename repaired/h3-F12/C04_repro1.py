"""C04 repro 1: integer text beyond 64 bits is read as a float by serdes.strload().

Enum members travel by value; the canonical text of the int value 2**70 + 1 is
"1180591620717411303425".  unmarshal(E, <that text>) must give the member back.
The same lossy parse silently changes big ints inside JSON-text containers.

Exit status 1 (AssertionError) while the defect is present, 0 once it is fixed.
"""
import enum
import sys

from typelib import unmarshal

BIG = 2**70 + 1  # not representable as a double


class Big(enum.Enum):
    small = 1
    big = BIG


class BigInt(enum.IntEnum):
    big = BIG


def main() -> int:
    failures = []
    # (control) in-range values and the int itself are fine
    assert unmarshal(Big, "1") is Big.small
    assert unmarshal(Big, BIG) is Big.big
    assert unmarshal(int, str(BIG)) == BIG

    for cls in (Big, BigInt):
        for carrier in (str(BIG), str(BIG).encode(), bytearray(str(BIG).encode())):
            try:
                got = unmarshal(cls, carrier)
            except Exception as e:  # noqa: BLE001
                failures.append(f"unmarshal({cls.__name__}, {carrier!r}) raised {e!r}")
            else:
                if got is not cls.big:
                    failures.append(f"unmarshal({cls.__name__}, {carrier!r}) -> {got!r}")

    # same root cause, silent corruption: the int comes back off by one
    got = unmarshal(list[int], f"[{BIG}]")
    if got != [BIG]:
        failures.append(f"unmarshal(list[int], '[{BIG}]') -> {got!r} (expected [{BIG}])")

    for f in failures:
        print("FAIL:", f)
    assert not failures, f"{len(failures)} violation(s)"
    return 0


if __name__ == "__main__":
    try:
        sys.exit(main())
    except AssertionError as e:
        print("AssertionError:", e)
        sys.exit(1)
