"""C02 repro 1: a text leaf of a recursive JSON-like alias never terminates (RecursionError).

Container routines accept a str as "an iterable of its characters"; a one-character
string iterates to itself, so `dict[str, Tree | str]` recurses for ever on any text leaf.
Exit status 1 while the defect is present, 0 once fixed.
"""
import json
import sys
import typing

import typelib

# The smallest natural shape: a tree of string leaves (i18n catalogue, config tree ...).
Tree = typing.TypeAliasType("Tree", "dict[str, Tree | str]")

# The shape of the library's own tests/models.py `Record`.
Scalar = typing.TypeAliasType("Scalar", "int | float | str | bool | None")
Record = typing.TypeAliasType(
    "Record", "dict[str, list[Record] | list[Scalar] | Record | Scalar]"
)


def std_dumps(o) -> bytes:
    return json.dumps(o).encode()


def roundtrip(T, v) -> list[str]:
    problems = []
    for name, kw in (
        ("default", {}),
        ("stdlib", dict(encoder=std_dumps, decoder=json.loads)),
    ):
        try:
            c = typelib.codec(T, **kw)
            wire = c.encode(v)
            assert json.loads(wire) == typelib.marshal(v, t=T)
            back = c.decode(wire)
        except RecursionError:
            problems.append(f"{T!r} {v!r} [{name}]: RecursionError in codec round trip")
            continue
        if back != v:
            problems.append(f"{T!r} {v!r} [{name}]: decode(encode(v)) == {back!r}")
    # the explicit composition / the unmarshal entry point on the JSON-native value
    try:
        if typelib.unmarshal(T, v) != v:
            problems.append(f"{T!r} {v!r}: unmarshal changed the value")
    except RecursionError:
        problems.append(f"{T!r} {v!r}: RecursionError in unmarshal")
    try:
        if typelib.marshal(v, t=T) != v:
            problems.append(f"{T!r} {v!r}: marshal changed the value")
    except RecursionError:
        problems.append(f"{T!r} {v!r}: RecursionError in marshal")
    return problems


def main() -> int:
    problems = []
    problems += roundtrip(Tree, {"a": "x"})
    problems += roundtrip(Tree, {"title": "hello", "menu": {"open": "Open"}})
    problems += roundtrip(Record, {"a": "x"})
    for p in problems:
        print("DEFECT:", p)
    return 1 if problems else 0


if __name__ == "__main__":
    sys.exit(main())
