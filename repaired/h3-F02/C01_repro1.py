"""C01 - a recursive container alias with a member whose wire form is text cannot be
round-tripped: the container members iterate the text character by character, and a
one-character string iterates to itself, so the union recurses until RecursionError
(re-raised by the union routines since c6c47a5)."""
import datetime
import sys

import typelib

type Json = list[Json] | int | str | None                         # str last: the loosest member
type Tree = dict[str, Tree] | datetime.date                        # no str member at all


def roundtrip(T, v):
    try:
        m = typelib.marshal(v, t=T)
        back = typelib.unmarshal(T, m)
    except RecursionError as e:
        return f"RecursionError: {e}"
    return back


failures = []
d = datetime.date(2020, 1, 1)
for T, v in [
    (Json, "a"),
    (Json, ["ab", "c"]),
    (Json, [["x"], 1, None]),
    (Tree, d),                      # marshals to '2020-01-01', cannot be read back
    (Tree, {"a": {"b": d}}),
]:
    got = roundtrip(T, v)
    if got != v or type(got) is not type(v):
        failures.append((T, v, got))
        print(f"FAIL T={T} v={v!r} -> {got!r}")

assert not failures, f"{len(failures)} valid values of a recursive alias did not round-trip"
print("ok")
