"""C07 repro 1: a recursive alias whose leaf travels as text never bottoms out.

`Tree = list[Tree] | str` (or any leaf whose wire form is a JSON string: datetime,
UUID, Path, ...). The collection member of the union accepts a str as a collection
of its characters; a one-character str is a collection of itself, so the recursion
never ends: RecursionError for every value that contains a text leaf, even at depth 0.

Exit status 1 (AssertionError) while the defect is present, 0 once fixed.
"""
import datetime
import sys
import typing

import typelib

Tree = typing.TypeAliasType("Tree", "list[Tree] | str")
MapTree = typing.TypeAliasType("MapTree", "dict[str, MapTree] | str")
TupTree = typing.TypeAliasType("TupTree", "tuple[TupTree, ...] | str")
WhenTree = typing.TypeAliasType("WhenTree", "list[WhenTree] | datetime.datetime")

NOW = datetime.datetime(2020, 1, 2, 3, 4, 5, tzinfo=datetime.timezone.utc)


def nest(wrap, depth, leaf):
    value = leaf
    for _ in range(depth):
        value = wrap(value)
    return value


CASES = []
for d in (0, 1, 2, 5, 12):
    CASES.append((Tree, nest(lambda v: [v, "leaf"], d, "ab"), None))
    CASES.append((MapTree, nest(lambda v: {"k": v}, d, "ab"), None))
    CASES.append((TupTree, nest(lambda v: (v,), d, "ab"), nest(lambda v: [v], d, "ab")))
    CASES.append((WhenTree, nest(lambda v: [v], d, NOW), nest(lambda v: [v], d, NOW.isoformat())))

failures = []
for t, value, wire in CASES:
    wire = value if wire is None else wire
    try:
        marshalled = typelib.marshal(value, t=t)
        if marshalled != wire:
            failures.append((t, value, "marshal", marshalled))
            continue
        back = typelib.unmarshal(t, wire)
        if back != value:
            failures.append((t, value, "unmarshal", back))
    except RecursionError as exc:
        failures.append((t, value, "RecursionError", str(exc)))

for f in failures[:8]:
    print("FAIL", f, file=sys.stderr)
assert not failures, f"{len(failures)} of {len(CASES)} cases failed"
print("ok")
