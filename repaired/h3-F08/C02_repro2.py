"""C02 repro 2: a bytes type that is *named by reference* is not carried verbatim.

codec(bytes) / encode(..., t=bytes) / decode(bytes, ...) carry the payload untouched, but
the same type given as "bytes", ForwardRef("bytes") or TypeAliasType("Blob", "bytes")
is pushed through the JSON encoder / decoder: encode raises TypeError and decode either
raises or silently alters the payload.
Exit status 1 while the defect is present, 0 once fixed.
"""
import sys
import typing

import typelib

Blob = typing.TypeAliasType("Blob", "bytes")
REFERENCES = {
    "'bytes'": "bytes",
    "ForwardRef('bytes')": typing.ForwardRef("bytes"),
    "TypeAliasType('Blob', 'bytes')": Blob,
}
# A payload that happens to be JSON text (decode alters it silently) and one that is not.
PAYLOADS = [b'"abc"', b"\xff\x00raw"]


def attempt(label, fn, expected, problems):
    try:
        got = fn()
    except Exception as e:  # noqa: BLE001
        problems.append(f"{label}: raised {type(e).__name__}: {e}")
        return
    if got != expected:
        problems.append(f"{label}: returned {got!r}, expected {expected!r} (verbatim)")


def main() -> int:
    problems: list[str] = []
    # Reference behaviour, the class itself: verbatim at every entry point.
    for p in PAYLOADS:
        assert typelib.codec(bytes).encode(p) == p == typelib.encode(p, t=bytes)
        assert typelib.codec(bytes).decode(p) == p == typelib.decode(bytes, p)
    for name, T in REFERENCES.items():
        for p in PAYLOADS:
            attempt(f"codec({name}).encode({p!r})", lambda: typelib.codec(T).encode(p), p, problems)
            attempt(f"encode({p!r}, t={name})", lambda: typelib.encode(p, t=T), p, problems)
            attempt(f"codec({name}).decode({p!r})", lambda: typelib.codec(T).decode(p), p, problems)
            attempt(f"decode({name}, {p!r})", lambda: typelib.decode(T, p), p, problems)
    for p in problems:
        print("DEFECT:", p)
    return 1 if problems else 0


if __name__ == "__main__":
    sys.exit(main())
