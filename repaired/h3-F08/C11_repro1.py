"""C11 repro 1: a bytes type named by a string / ForwardRef / string-valued alias is not
carried verbatim by codec(), typelib.encode() and typelib.decode(), although `bytes`
itself (and NewType / value-alias / Final wrappers of it) is."""
import sys
import typing

import typelib

Blob = typing.TypeAliasType("Blob", "bytes")
WRAPPED = {
    "'bytes'": "bytes",
    "ForwardRef('bytes', module=__name__)": typing.ForwardRef("bytes", module=__name__),
    "TypeAliasType('Blob', 'bytes')": Blob,
    "Final['bytes']": typing.Final["bytes"],
}

payload = b"\x00\xffraw"
# Reference behaviour (T itself): bytes travel verbatim in both directions.
ref = typelib.codec(bytes)
assert ref.encode(payload) == payload and ref.decode(payload) == payload
assert typelib.encode(payload, t=bytes) == payload and typelib.decode(bytes, payload) == payload


def attempt(f):
    try:
        return ("ok", f())
    except Exception as e:  # noqa: BLE001
        return ("err", type(e).__name__)


failures = []
for label, w in WRAPPED.items():
    got = {
        "codec.encode": attempt(lambda: typelib.codec(w).encode(payload)),
        "codec.decode": attempt(lambda: typelib.codec(w).decode(payload)),
        "typelib.encode": attempt(lambda: typelib.encode(payload, t=w)),
        "typelib.decode": attempt(lambda: typelib.decode(w, payload)),
    }
    for op, res in got.items():
        if res != ("ok", payload):
            failures.append(f"{op} for {label}: expected ('ok', {payload!r}), got {res!r}")

for f in failures:
    print("DEFECT:", f)
assert not failures, f"{len(failures)} wrapper/entry-point combinations differ from `bytes`"
print("ok")
sys.exit(0)
