"""C10 / debatable: four binders hand the *name* of a keyword argument to the callable
in place of its value when the name is not a registered parameter
(`binding[k](v) if k in binding else k`).  For a real Python signature without **kwargs
such a keyword is rejected by the callable anyway (TypeError), so the slip is only
observable through the signature typelib invents for a TypedDict class, which Python
itself happily calls with extra keys.

Exits 1 (AssertionError) while the defect is present, 0 once it is repaired.
"""
import typing

from typelib import binding


class Options(typing.TypedDict):
    a: int
    b: float


plain = Options(a="1", b="2", extra="3")  # Python accepts the call
assert plain == {"a": "1", "b": "2", "extra": "3"}
got = binding.bind(Options)(a="1", b="2", extra="3")
print("bind(Options)(a='1', b='2', extra='3') ->", got)
assert got == {"a": 1, "b": 2.0, "extra": "3"}, f"value of the extra keyword was replaced by its name: {got!r}"
print("ok")
