"""C03 repro 1: a parameterised user generic whose fields are described by a constructor
with *string* annotations (``from __future__ import annotations``) is returned unconverted.

Exits 1 (AssertionError) while the defect is present, 0 once Stack[int] converts / rejects
its members like the same class does without the __future__ import.
"""
from __future__ import annotations

import typing as tp
import warnings

import typelib

T = tp.TypeVar("T")


class Stack(tp.Generic[T]):
    def __init__(self, items: list[T], top: tp.Optional[T] = None):
        self.items = items
        self.top = top


def conforms(s) -> bool:
    return (
        isinstance(s, Stack)
        and isinstance(s.items, list)
        and all(isinstance(i, int) for i in s.items)
        and (s.top is None or isinstance(s.top, int))
    )


warnings.simplefilter("ignore")
problems = []

# 1. a valid wire form with re-typed members: must be converted (or rejected), never passed through.
try:
    got = typelib.unmarshal(Stack[int], {"items": ["1", "2"], "top": "3"})
except Exception:
    got = None
else:
    if not conforms(got):
        problems.append(f"Stack[int] <- strings returned items={got.items!r} top={got.top!r}")

# 2. a corrupted wire form: members that are no ints at all must make the call raise.
for bad in (
    {"items": ["a", None, {"x": 1}], "top": "b"},
    {"items": [[1, 2], "zz"]},
    {"items": {"k": "v"}, "top": [1]},
):
    try:
        got = typelib.unmarshal(Stack[int], bad)
    except Exception:
        continue
    if not conforms(got):
        problems.append(f"Stack[int] <- {bad!r} returned items={got.items!r} top={got.top!r}")

# 3. the same below the root.
try:
    got = typelib.unmarshal(dict[str, Stack[int]], {"k": {"items": ["a"], "top": "b"}})
except Exception:
    pass
else:
    if not conforms(got["k"]):
        problems.append(f"dict[str, Stack[int]] returned items={got['k'].items!r}")

assert not problems, "\n".join(problems)
print("ok")
