"""C05 repro 1: a parameterised user generic whose fields are described by its constructor
(an annotated plain class) loses its type arguments when the constructor's annotations are
strings (`from __future__ import annotations`, or quoted by hand).

unmarshal(Stack[int], x) must equal Stack(items=unmarshal(List[int], x["items"]), top=unmarshal(int, x["top"])).
Exit status 1 (AssertionError) while the defect is present, 0 once it is fixed.
"""
import sys
import types
import typing

import typelib


def make_module(name: str, source: str) -> types.ModuleType:
    module = types.ModuleType(name)
    module.__file__ = f"/nonexistent/{name}.py"
    sys.modules[name] = module
    exec(compile(source, module.__file__, "exec"), module.__dict__)
    return module


SOURCE = """
{future}
import typing

T = typing.TypeVar("T")


class Stack(typing.Generic[T]):
    def __init__(self, items: typing.List[T], top: T):
        self.items = items
        self.top = top
"""

# The very same class, once with evaluated and once with postponed (string) annotations.
plain = make_module("c05_r1_plain", SOURCE.format(future=""))
postponed = make_module("c05_r1_postponed", SOURCE.format(future="from __future__ import annotations"))

raw = {"items": ["1", "2"], "top": "3"}
# The members, converted by the routines obtained independently for their annotated types.
want_items = typelib.unmarshal(typing.List[int], raw["items"])
want_top = typelib.unmarshal(int, raw["top"])
assert (want_items, want_top) == ([1, 2], 3)

failures = []
for module in (plain, postponed):
    got = typelib.unmarshal(module.Stack[int], raw)
    if (got.items, got.top) != (want_items, want_top):
        failures.append(f"unmarshal {module.__name__}.Stack[int]: items={got.items!r} top={got.top!r}")
    # ... and back: Stack[Decimal] members are written by the Decimal routine (a string).
    import decimal

    value = module.Stack[decimal.Decimal]([decimal.Decimal("1.5")], decimal.Decimal("2.5"))
    out = typelib.marshal(value, t=module.Stack[decimal.Decimal])
    want_out = {
        "items": typelib.marshal([decimal.Decimal("1.5")], t=typing.List[decimal.Decimal]),
        "top": typelib.marshal(decimal.Decimal("2.5"), t=decimal.Decimal),
    }
    if out != want_out:
        failures.append(f"marshal {module.__name__}.Stack[Decimal]: {out!r} != {want_out!r}")

for line in failures:
    print("DEFECT:", line)
assert not failures, "type arguments of a constructor-described generic are not bound to string annotations"
print("ok")
