"""C09 repro 1: a parameterised user generic whose fields are described by a constructor with
STRING annotations (PEP 563 / quoted) keeps its type parameters unbound in the graph.

Exits 1 (AssertionError) while the defect is present, 0 once fixed.
"""
import typing
from typing import Generic, Optional, TypeVar

from typelib import graph

T = TypeVar("T")


class Quoted(Generic[T]):
    # what `from __future__ import annotations` does to every annotation
    def __init__(self, items: "list[T]", top: "T", below: "Optional[Quoted[T]]" = None):
        self.items, self.top, self.below = items, top, below


class Plain(Generic[T]):
    # the same class with evaluated annotations: this one is handled correctly
    def __init__(self, items: list[T], top: T, below: Optional["Plain[T]"] = None):
        self.items, self.top, self.below = items, top, below


def member_types(order):
    return [n.type for n in order[:-1]]


def free_params(order):
    return [n for n in order if isinstance(n.type, TypeVar) or getattr(n.type, "__parameters__", ())]


# control: evaluated annotations
good = graph.static_order(Plain[int])
assert good[-1].type == Plain[int]
assert list[int] in member_types(good), good
assert Optional[Plain[int]] in member_types(good), good
assert not free_params(good), free_params(good)

# defect: string annotations
order = graph.static_order(Quoted[int])
assert order[-1].type == Quoted[int]
# the field types of Quoted[int] are list[int], int and Optional[Quoted[int]] ...
assert list[int] in member_types(order), (
    "Quoted[int] is not preceded by a node for its field type list[int]:\n  "
    + "\n  ".join(map(repr, order))
)
assert Optional[Quoted[int]] in member_types(order), order
# ... and nothing in the graph of a fully parameterised type still waits for T
assert not free_params(order), free_params(order)
print("ok")
