"""origin() of nested wrappers (C17): failed before the repair, passes with it."""
import typing as t

import typing_extensions as te

from typelib.py import inspection as i

U = t.NewType("U", int)
A = te.TypeAliasType("A", U)
L = te.TypeAliasType("L", t.List[int])
N = t.NewType("N", L)
assert i.origin(U) is int and i.origin(L) is list  # one wrapper: always worked
assert i.origin(A) is int, i.origin(A)
assert i.origin(t.ClassVar[U]) is int, i.origin(t.ClassVar[U])
assert i.origin(t.ClassVar[L]) is list
assert i.origin(N) is list
assert i.origin(t.ClassVar[A]) is int
assert i.isdatetype(A) is False  # used to raise TypeError: issubclass() arg 1 must be a class
assert i.origin(t.ClassVar) is t.ClassVar  # nothing beneath: no endless re-examination
print("ok")
