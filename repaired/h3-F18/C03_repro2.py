"""C03 repro 2: Required[...] wrapped in Annotated[...] is not seen in string annotations.

Exits 1 (AssertionError) while the defect is present, 0 once it is fixed.
"""
from __future__ import annotations  # every annotation below is a string

import typing

import typelib


class Patch(typing.TypedDict, total=False):
    # PEP 655: Required[]/NotRequired[] may be combined with Annotated[] in any nesting order.
    id: typing.Annotated[typing.Required[int], "primary key"]
    note: str


class PatchPlain(typing.TypedDict, total=False):
    id: typing.Required[int]
    note: str


def outcome(t, value):
    try:
        return ("returned", typelib.unmarshal(t, value))
    except Exception as exc:
        return ("raised", exc)


# Control: the same declaration without the Annotated wrapper is enforced.
assert outcome(PatchPlain, {"note": "x"})[0] == "raised"
# Control: a complete value is accepted.
assert outcome(Patch, {"id": "1", "note": "x"}) == ("returned", {"id": 1, "note": "x"})

problems = []
for value in ({"note": "x"}, {}, {"ID": 1, "note": "x"}, '{"note": "x"}'):
    kind, result = outcome(Patch, value)
    if kind == "returned":
        problems.append(f"unmarshal(Patch, {value!r}) returned {result!r} without the required key 'id'")

assert not problems, "\n  ".join(problems)
