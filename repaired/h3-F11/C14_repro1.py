"""C14 / JSON text held in a str *subclass* instance is not read as JSON.

inspection.istexttype() counts every subclass of str as text (its docstring says so), and
serdes.load() sends such a value to strload().  The default JSON backend (orjson) refuses any
str that is not exactly `str`, the refusal is a ValueError, and strload() takes it to mean
"this is not JSON".  What then happens depends on whether the JSON text is *also* a Python
literal: '[1, 2]' still works (literal_eval), '{"a": null}' / '[true, false]' come back as the
unparsed text, and unmarshal() builds garbage from the characters or rejects a valid document.

Exit status 1 (AssertionError) while the defect is present, 0 once fixed.
"""
import dataclasses
import json
import typing

from typelib import serdes, unmarshal


class Text(str):
    """Any str subclass: markupsafe.Markup, numpy.str_, a str-mixin enum member, ..."""


@dataclasses.dataclass
class Point:
    x: int
    tag: typing.Optional[str] = None


failures = []


def check(label, got, want):
    ok = got == want and type(got) is type(want)
    print(("ok   " if ok else "FAIL "), label, "->", repr(got), "" if ok else f"(expected {want!r})")
    if not ok:
        failures.append(label)


def attempt(t, value):
    try:
        return unmarshal(t, value)
    except Exception as e:  # noqa: BLE001
        return f"rejected: {type(e).__name__}"


for doc in ('{"a": null}', "[true, false]", "null", '"\\ud83d\\ude00"', "[1, 2]"):
    want = json.loads(doc)
    check(f"load(str {doc!r})", serdes.load(doc), want)
    check(f"load(Text {doc!r})", serdes.load(Text(doc)), want)
    check(f"strload(Text {doc!r})", serdes.strload(Text(doc)), want)

# The same text in the other carriers, for reference, and then as a str subclass.
flags, point = "[true, false]", '{"x": 1, "tag": null}'
for carrier in (str, str.encode, lambda s: bytearray(s.encode()), lambda s: memoryview(s.encode()), Text):
    name = getattr(carrier, "__name__", "carrier")
    check(f"unmarshal(list[bool], {name})", attempt(list[bool], carrier(flags)), [True, False])
    check(f"unmarshal(Point, {name})", attempt(Point, carrier(point)), Point(1, None))
    check(f"unmarshal(dict[str, Any], {name})", attempt(dict[str, typing.Any], carrier(point)), {"x": 1, "tag": None})

assert not failures, failures
