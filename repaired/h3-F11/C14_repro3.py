"""C14 / serdes.strload does not leave non-text inputs untouched.

The property promises that serdes.load *and* serdes.strload return non-text inputs untouched.
load() checks for text first; strload() does not: whatever it is given goes to the memoised
parser, which is keyed by ==/hash of its argument.  So
  * a wire value that is unhashable (every list / dict / set) raises TypeError,
  * a hashable one is answered with whatever equal object was seen first (True -> 1.0),
  * an `ast` node is *evaluated* (ast.literal_eval accepts nodes).

Exit status 1 (AssertionError) while the defect is present, 0 once fixed.
"""
import ast
import decimal

from typelib import serdes

failures = []


def check(label, value):
    try:
        got = serdes.strload(value)
    except Exception as e:  # noqa: BLE001
        got = e
    same = got is value or (type(got) is type(value) and got == value)
    print(("ok   " if same else "FAIL "), label, "->", repr(got))
    if not same:
        failures.append(label)
    # load() is the reference: it returns every non-text input as it is.
    assert serdes.load(value) is value


# Wire values of collection / mapping / structured types, decoded.
check("strload([1, 2])", [1, 2])
check("strload({'a': 1})", {"a": 1})
check("strload({1, 2})", {1, 2})
check("strload((1, [2]))", (1, [2]))
# Hashable scalars: the first one warms the memo, the equal ones after it get *its* answer.
check("strload(1.0)", 1.0)
check("strload(True)", True)
check("strload(Decimal(1))", decimal.Decimal(1))
check("strload(None)", None)
# Not text either.
node = ast.Constant(5)
check("strload(ast.Constant(5))", node)

assert not failures, failures
