"""C18 repro 1: a slotted base class with a dict-bearing subclass (no annotations anywhere).

The public state of the instance lives partly in slots and partly in its __dict__;
iteritems()/itervalues() yield the slots only and silently drop the rest.
"""
from typelib import serdes


class Point:
    __slots__ = ("x", "y")

    def __init__(self, x, y):
        self.x = x
        self.y = y


class Labeled(Point):  # no __slots__ here -> instances have a __dict__
    def __init__(self, x, y, label):
        super().__init__(x, y)
        self.label = label


class Open:
    __slots__ = ("a", "__dict__")  # explicit: one slot plus an instance dict

    def __init__(self):
        self.a = 1
        self.b = 2


p = Labeled(1, 2, "p")
items = list(serdes.iteritems(p))
values = list(serdes.itervalues(p))
print("Labeled:", items, values)
o = Open()
oitems = list(serdes.iteritems(o))
print("Open:", oitems)

# the objects are untouched
assert (p.x, p.y, p.label) == (1, 2, "p") and vars(p) == {"label": "p"}

assert sorted(items) == [("label", "p"), ("x", 1), ("y", 2)], items
assert len(values) == 3 and set(map(str, values)) == {"1", "2", "p"}, values
assert sorted(oitems) == [("a", 1), ("b", 2)], oitems
