"""C02 repro 5: attributes kept in the instance __dict__ of a class that also has slots are dropped.

`Point3` inherits `__slots__ = ("x", "y")` from `Point2` but declares none itself, so `z`
lives in its `__dict__` (same for a class that lists "__dict__" among its slots). The field
iterator built for such a class only walks the slot names: encode() silently drops `z` and
decode() of the library's own output fails.
Exit status 1 while the defect is present, 0 once fixed.
"""
import json
import sys

import typelib


class Point2:
    __slots__ = ("x", "y")

    def __init__(self, x: int, y: int):
        self.x = x
        self.y = y


class Point3(Point2):  # no __slots__ here: instances have a __dict__
    def __init__(self, x: int, y: int, z: int):
        super().__init__(x, y)
        self.z = z

    def __eq__(self, other):
        return type(other) is Point3 and (other.x, other.y, other.z) == (self.x, self.y, self.z)

    def __repr__(self):
        return f"Point3({self.x}, {self.y}, {self.z})"


class Tagged:
    __slots__ = ("name", "__dict__")

    def __init__(self, name: str, note: str):
        self.name = name
        self.note = note

    def __eq__(self, other):
        return type(other) is Tagged and (other.name, other.note) == (self.name, self.note)

    def __repr__(self):
        return f"Tagged({self.name!r}, {self.note!r})"


def main() -> int:
    problems = []
    for T, v, expected in (
        (Point3, Point3(1, 2, 3), {"x": 1, "y": 2, "z": 3}),
        (Tagged, Tagged("a", "b"), {"name": "a", "note": "b"}),
    ):
        for label, kw in (("default", {}), ("stdlib", dict(encoder=lambda o: json.dumps(o).encode(), decoder=json.loads))):
            c = typelib.codec(T, **kw)
            wire = c.encode(v)
            if json.loads(wire) != expected:
                problems.append(f"[{label}] codec({T.__name__}).encode({v!r}) == {wire!r}, expected {expected!r}")
            try:
                back = c.decode(wire)
                if back != v:
                    problems.append(f"[{label}] decode(encode(v)) == {back!r}")
            except Exception as e:  # noqa: BLE001
                problems.append(f"[{label}] decode(encode({v!r})) raised {type(e).__name__}: {e}")
        # decoding a complete document works, so only the marshal side is at fault
        assert typelib.decode(T, json.dumps(expected).encode()) == v
    for p in problems:
        print("DEFECT:", p)
    return 1 if problems else 0


if __name__ == "__main__":
    sys.exit(main())
