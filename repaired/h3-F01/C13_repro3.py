"""C13 repro 3: an un-annotated class whose instances have both slots and a __dict__
(only one class of the hierarchy declares __slots__) is iterated by its slot names alone;
the attributes in the instance dict are dropped, so a valid instance cannot pass through."""
from typelib import unmarshal


class Base:
    __slots__ = ("a",)

    def __init__(self, a: str):
        self.a = a


class Child(Base):  # no __slots__ here: instances own a __dict__
    def __init__(self, a: str, b: int):
        super().__init__(a)
        self.b = b

    def __eq__(self, other):
        return type(other) is Child and (other.a, other.b) == (self.a, self.b)


v = Child("1", 2)
try:
    r = unmarshal(Child, v)
except TypeError as e:
    raise AssertionError(f"pass-through violated: unmarshal(Child, Child('1', 2)) raised {e!r}")
assert r == v, f"pass-through violated: {vars(r)}"
