"""C06 repro 2: the pattern routine emits `Pattern.pattern` as the object it is.
`re.compile()` keeps the very object it was given, so a pattern compiled from a str
subclass (a user subclass, or a member of a `(str, Enum)` / StrEnum vocabulary of
expressions) is emitted as that subclass instance / enum member, not as `str`."""
import dataclasses
import enum
import re
import typing

import typelib


class Source(str):
    pass


class Rx(str, enum.Enum):
    WORD = r"\w+"


@dataclasses.dataclass
class Rule:
    name: str
    expr: re.Pattern[str]


failures = []

out = typelib.marshal(re.compile(Source("a+")), t=re.Pattern[str])
if out.__class__ is not str:
    failures.append(f"re.Pattern[str] <- compile(Source('a+')) gave a {out.__class__.__name__}")

out = typelib.marshal(re.compile(Rx.WORD), t=re.Pattern)
if out.__class__ is not str:
    failures.append(f"re.Pattern <- compile(Rx.WORD) gave {out!r}")

out = typelib.marshal(Rule("r", re.compile(Rx.WORD)), t=Rule)
if out["expr"].__class__ is not str:
    failures.append(f"Rule.expr gave {out['expr']!r}")

out = typelib.marshal({re.compile(Source("k")): 1}, t=dict[re.Pattern[str], int])
if any(k.__class__ is not str for k in out):
    failures.append(f"dict key gave {[k.__class__.__name__ for k in out]}")

# The sibling text routine does what is promised (so the promise is meant):
assert typelib.marshal(Source("a"), t=str).__class__ is str

assert not failures, "\n".join(failures)
