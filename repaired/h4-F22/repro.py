"""A bare string names something resolvable from the *caller's* module.  The stack walk which looks for it started inside the
library, so a caller's class called like one of the library's own globals (TypeNode, ForwardRef, Any, Final, ...) was never
found.  Exit 1 while that is so."""
import pathlib, sys, tempfile

d = pathlib.Path(tempfile.mkdtemp(prefix="h4f22_"))
(d / "h4f22_user.py").write_text(
    "import dataclasses, typelib\n"
    "@dataclasses.dataclass\nclass TypeNode:\n    x: int\n"
    "@dataclasses.dataclass\nclass Any:\n    y: int\n"
    "@dataclasses.dataclass\nclass Final:\n    z: int\n"
    "@dataclasses.dataclass\nclass ForwardRef:\n    w: int\n"
    "def go():\n"
    "    out = {}\n"
    "    for nm, data in (('TypeNode', {'x': '1'}), ('Any', {'y': '1'}), ('Final', {'z': '1'}), ('ForwardRef', {'w': '1'})):\n"
    "        try:\n            out[nm] = typelib.unmarshal(nm, data)\n"
    "        except Exception as e:\n            out[nm] = e\n"
    "    return out\n"
)
sys.path.insert(0, str(d))
import h4f22_user  # noqa: E402

bad = 0
for nm, v in h4f22_user.go().items():
    want = getattr(h4f22_user, nm)
    if type(v) is not want:
        print("FAIL", nm, repr(v)[:120])
        bad += 1
print("ok" if not bad else f"{bad} name(s) resolved to the library's own global")
raise SystemExit(1 if bad else 0)
