"""C09 repro 2: a member whose STRING annotation evaluates to typing.Any is not skipped; met a
second time it is cut as ForwardRef('typing.Any', module='typing'), which does not evaluate.

Exits 1 (AssertionError) while the defect is present, 0 once fixed.
"""
from __future__ import annotations

import typing
from typing import Any

from typelib import graph
from typelib.py import refs


class Event:
    def __init__(self, payload: Any, context: Any, seq: int = 0):
        self.payload, self.context, self.seq = payload, context, seq


def check(order, what):
    problems = []
    for node in order:
        if isinstance(node.type, typing.ForwardRef) or node.cyclic:
            try:
                value = refs.evaluate(node.type)
            except Exception as e:  # noqa: BLE001
                problems.append(f"{what}: deferred node {node!r} does not evaluate: {type(e).__name__}: {e}")
                continue
            if isinstance(value, typing.ForwardRef):
                problems.append(f"{what}: deferred node {node!r} stays a reference")
    return problems


problems = []
problems += check(graph.static_order(Event), "Event")
# the same through a builtin generic that keeps its string arguments
problems += check(graph.static_order(tuple["Any", "Any"]), 'tuple["Any", "Any"]')
assert not problems, "\n".join(problems)
print("ok")
