"""istypedtuple() looks at the class's *own* __annotations__ instead of the NamedTuple
machinery (_fields): a subclass of a NamedTuple is not typed, a plain tuple subclass
with any class-level annotation is."""
import typing as tp

import typelib
from typelib.py import inspection


class Point(tp.NamedTuple):
    x: int
    y: int


class Point2(Point):  # a subclass that only adds behaviour
    def norm(self):
        return abs(self.x) + abs(self.y)


class Version(tuple):  # an ordinary tuple subclass; not a NamedTuple in any sense
    sep: tp.ClassVar[str] = "."


assert inspection.istypedtuple(Point) is True
assert tp.get_type_hints(Point2) == {"x": int, "y": int} and Point2._fields == ("x", "y")
assert not hasattr(Version, "_fields")

failures = []
if inspection.istypedtuple(Point2) is not True:
    failures.append("istypedtuple(Point2) is False for a typed NamedTuple subclass")
if inspection.istypedtuple(Version) is not False:
    failures.append("istypedtuple(Version) is True for a plain tuple subclass")
# end to end: the plain tuple subclass is rerouted to the structured routine and loses its members
class Plain(tuple): ...
assert typelib.unmarshal(Plain, [1, 2]) == (1, 2)
got = typelib.unmarshal(Version, [1, 2])
if got != (1, 2):
    failures.append(f"unmarshal(Version, [1, 2]) -> {got!r}")
assert not failures, failures
