"""slotted() gives a derived dataclass a slot for every field it INHERITS from an
unslotted dataclass base (only the class's own, non-inherited fields should get one).
The extra slot descriptor shadows whatever the base class keeps under that name, so a
default that lives on the base class (field(default=..., init=False) declared in the
BASE, not in the decorated class) is no longer seen by instances."""
import dataclasses
import warnings

from typelib.py import classes

warnings.simplefilter("ignore")


@dataclasses.dataclass
class Base:  # plain, unslotted dataclass
    a: int = 1
    tag: str = dataclasses.field(default="base", init=False)


@dataclasses.dataclass
class Child(Base):
    b: int = 2


Original = Child
Slotted = classes.slotted(Child, dict=False, weakref=False)

own = tuple(f.name for f in dataclasses.fields(Original) if f.name in Original.__annotations__)
assert own == ("b",)

# 1. one slot per NON-inherited field
assert Slotted.__slots__ == own, (
    f"slots {Slotted.__slots__!r}: inherited fields of the unslotted base were slotted "
    f"again, expected {own!r}"
)

# 2. behavioural consequence: constructed / repr'd like the original
assert repr(Original()) == "Child(a=1, tag='base', b=2)"
try:
    got = repr(Slotted())
except AttributeError as e:  # 'Child' object has no attribute 'tag'
    raise AssertionError(f"slotted instance lost the inherited default: {e}")
assert got == repr(Original()), got
