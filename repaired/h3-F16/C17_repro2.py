"""isunresolvable() compares the annotation as written with re.Match, so only the bare
class is recognised: re.Match[str], typing.Match and typing.Match[str] are not."""
import re
import typing as tp

import typelib
from typelib.py import inspection

assert inspection.isunresolvable(re.Match) is True
spellings = [re.Match[str], re.Match[bytes], tp.Match, tp.Match[str]]
for s in spellings:  # all four resolve to the very same class
    assert (tp.get_origin(s) or s) is re.Match
bad = [str(s) for s in spellings if inspection.isunresolvable(s) is not True]
# the sibling type[X] / typing.Type is spelling independent
assert all(inspection.isunresolvable(s) for s in (type, tp.Type, type[int], tp.Type[int]))

# consequence: the dispatch tables reroute the other spellings to the structured routine
m = re.match("a", "a")
assert typelib.unmarshal(re.Match, m) is m
e2e = []
for s in spellings:
    try:
        if typelib.unmarshal(s, m) is not m:
            e2e.append(str(s))
    except Exception as e:  # TypeError: cannot create 're.Match' instances
        e2e.append(f"{s}: {type(e).__name__}")
assert not bad and not e2e, (bad, e2e)
