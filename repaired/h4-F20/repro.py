import typing_extensions as te
from typelib import codecs
B3 = te.TypeAliasType("B3", te.TypeAliasType("B2", bytes))
B4 = te.TypeAliasType("B4", "B3")
A = te.TypeAliasType("A", "A")
ok = True
for t in (B3, "B3", B4, "B4", "bytes", bytes):
    c = codecs.codec(t)
    if c.encode(b"ab") != b"ab" or c.decode(b"ab") != b"ab":
        print("FAIL", t); ok = False
print(codecs._isverbatim(A), codecs._isverbatim("A"))
raise SystemExit(0 if ok else 1)
