"""C05 / root cause 3: equal class names in two modules, plain classes whose fields are
the annotated parameters of __init__, written `typing.Optional["Node"]` /
`typing.List["Node"]` (no `from __future__ import annotations`).

`typing` hands out ONE shared object for every spelling of `Optional["Node"]`; its
ForwardRef remembers the first value it was evaluated to, and
`typing.get_type_hints(function)` (globalns is localns) reuses that value. typelib reads
signature hints with exactly that call, so the second module's `Node` gets the FIRST
module's `Node` as its members.
"""
import importlib
import os
import sys
import tempfile
import textwrap

import typelib

SRC = '''
import typing


class Node:
    def __init__(self, v: {vt}, nxt: typing.Optional["Node"] = None,
                 kids: typing.List["Node"] = ()):
        self.v, self.nxt, self.kids = v, nxt, list(kids)

    def __eq__(self, other):
        return type(other) is type(self) and vars(other) == vars(self)

    def __repr__(self):
        return f"{{__name__}}.Node(v={{self.v!r}}, nxt={{self.nxt!r}}, kids={{self.kids!r}})"
'''

d = tempfile.mkdtemp(prefix="c05_r3_")
for name, vt in (("c05_mod_a", "int"), ("c05_mod_b", "str")):
    with open(os.path.join(d, name + ".py"), "w") as f:
        f.write(textwrap.dedent(SRC.format(vt=vt)))
sys.path.insert(0, d)
a = importlib.import_module("c05_mod_a")
b = importlib.import_module("c05_mod_b")

x = {"v": "1", "nxt": {"v": "2"}, "kids": [{"v": "3"}]}

got_a = typelib.unmarshal(a.Node, x)
assert got_a == a.Node(1, a.Node(2), [a.Node(3)]), got_a

got_b = typelib.unmarshal(b.Node, x)
expected_b = b.Node("1", b.Node("2"), [b.Node("3")])
print("got     :", got_b)
print("expected:", expected_b)
assert got_b == expected_b, "members of c05_mod_b.Node were routed to c05_mod_a.Node"

# marshal: c05_mod_b.Node.v is a str; the routine of c05_mod_a.Node casts it with int()
val = b.Node("x", b.Node("y"))
assert typelib.marshal(val) == {"v": "x", "nxt": {"v": "y", "nxt": None, "kids": []}, "kids": []}
