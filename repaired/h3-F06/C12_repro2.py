"""C12 repro 2: refs.evaluate() trusts the evaluation memo of a ForwardRef object that `typing`
shares between every equally spelled annotation in the process.

`typing.List["Node"]` is interned by typing's own cache: module A's field annotation and module B's
`typing.List["Node"]` are the SAME alias object holding the SAME ForwardRef('Node').  Building the
routine for A.Node runs typing.get_type_hints(A.Node), which stores A.Node in that shared
ForwardRef (`__forward_evaluated__` / `__forward_value__`).  From then on refs.evaluate() returns
the memo instead of resolving the name where it is used, so `unmarshal(List["Node"], ...)` issued
from module B builds A.Node objects.  Run alone it builds B.Node objects.

Exit status 1 (AssertionError) while the defect is present, 0 once fixed.
"""
import subprocess
import sys
import types

import typelib

SRC_A = '''
import dataclasses, typing
@dataclasses.dataclass
class Node:
    value: int = 0
    kids: typing.List["Node"] = dataclasses.field(default_factory=list)
'''
SRC_B = '''
import dataclasses, typing, typelib
@dataclasses.dataclass
class Node:
    weight: int = 0
def load(raw):
    return typelib.unmarshal(typing.List["Node"], raw)
'''


def module(name, src):
    mod = types.ModuleType(name)
    sys.modules[name] = mod
    exec(compile(src, f"<{name}>", "exec"), mod.__dict__)
    return mod


def describe(result):
    return ";".join(f"{type(o).__module__}.{type(o).__qualname__}:{o!r}" for o in result)


def run(history):
    mod_a = module("c12_mod_a", SRC_A)
    mod_b = module("c12_mod_b", SRC_B)
    if history:
        # an unrelated operation on an unrelated type: build the routine for A.Node
        typelib.unmarshaller(mod_a.Node)
    return describe(mod_b.load([{"value": 1, "weight": 2}]))


if __name__ == "__main__":
    if len(sys.argv) > 1 and sys.argv[1] == "--alone":
        print(run(history=False))
        sys.exit(0)
    alone = subprocess.run(
        [sys.executable, __file__, "--alone"], capture_output=True, text=True, check=True
    ).stdout.strip()
    after = run(history=True)
    assert alone.startswith("c12_mod_b.Node"), alone  # sanity: the isolated call resolves B's own class
    assert after == alone, (
        "unmarshal(List['Node'], ...) depends on which routines were built before:\n"
        f"  alone (cold process)        : {alone}\n"
        f"  after unmarshaller(A.Node)  : {after}"
    )
    print("ok")
