"""C12 repro 4: hints read from a constructor signature come from typing.get_type_hints(function),
which answers from the evaluation memo of ForwardRef objects that `typing` shares process-wide.

`typing.Optional["Node"]` is interned by typing's cache: the `__init__` annotations of module A's
Node and of module B's Node hold the SAME ForwardRef('Node') object.  For a function,
typing.get_type_hints evaluates with localns is globalns and therefore trusts (and fills) that
memo.  inspection._hints_from_signature() calls it, so whichever of the two classes gets its
routine built FIRST decides what "Node" means for the other one, for the rest of the process.

Exit status 1 (AssertionError) while the defect is present, 0 once fixed.
"""
import subprocess
import sys
import types

import typelib

SRC = '''
import typing
class Node:
    def __init__(self, {field}: int = 0, next: typing.Optional["Node"] = None):
        self.{field} = {field}
        self.next = next
    def __repr__(self):
        return f"{{__name__}}.Node({field}={{self.{field}}}, next={{self.next!r}})"
'''


def module(name, field):
    mod = types.ModuleType(name)
    sys.modules[name] = mod
    exec(compile(SRC.format(field=field), f"<{name}>", "exec"), mod.__dict__)
    return mod


def run(history):
    mod_a = module("c12_sig_a", "value")
    mod_b = module("c12_sig_b", "weight")
    if history:
        # an unrelated operation on an unrelated type
        typelib.unmarshaller(mod_a.Node)
    raw = {"weight": 1, "value": 5, "next": {"weight": 2, "value": 6}}
    built = typelib.unmarshal(mod_b.Node, raw)
    dumped = typelib.marshal(mod_b.Node(1, mod_b.Node(2)))
    return f"{built!r} | {dumped!r}"


if __name__ == "__main__":
    if len(sys.argv) > 1 and sys.argv[1] == "--alone":
        print(run(history=False))
        sys.exit(0)
    alone = subprocess.run(
        [sys.executable, __file__, "--alone"], capture_output=True, text=True, check=True
    ).stdout.strip()
    after = run(history=True)
    assert "c12_sig_a" not in alone, alone  # sanity: alone, B's Node only ever nests B's Node
    assert after == alone, (
        "unmarshal/marshal of B.Node depend on which routines were built before:\n"
        f"  alone (cold process)        : {alone}\n"
        f"  after unmarshaller(A.Node)  : {after}"
    )
    print("ok")
