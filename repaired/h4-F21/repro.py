"""bind(cls) of a class whose __init__ is inherited from a base written in another module: a string annotation of that
constructor names something in the *base's* module (wrap() and unmarshal() agree).  Exit 1 while bind() looks in the subclass's."""
import pathlib, sys, tempfile

d = pathlib.Path(tempfile.mkdtemp(prefix="h4f21_"))
(d / "h4f21_base.py").write_text(
    "import dataclasses\n"
    "@dataclasses.dataclass\n"
    "class Money:\n    cents: int\n"
    "class Account:\n"
    "    def __init__(self, balance: 'Money', owner: 'str'):\n"
    "        self.balance = balance; self.owner = owner\n"
)
(d / "h4f21_sub.py").write_text(
    "import h4f21_base\n"
    "class Money:\n    def __init__(self, *a, **k): raise RuntimeError('the Money of the wrong module')\n"
    "class Savings(h4f21_base.Account):\n    pass\n"
)
sys.path.insert(0, str(d))
import h4f21_base, h4f21_sub  # noqa: E402
from typelib import binding  # noqa: E402

try:
    s = binding.bind(h4f21_sub.Savings)({"cents": "5"}, 3)
except Exception as e:  # noqa: BLE001
    print("FAIL bind(Savings):", type(e).__name__, e)
    raise SystemExit(1)
ok = type(s.balance) is h4f21_base.Money and s.balance.cents == 5 and s.owner == "3"
print("ok" if ok else f"FAIL {s.balance!r} {s.owner!r}")
raise SystemExit(0 if ok else 1)
